// Unit c20_value_codec -- property C20 "SBOR values round-trip and have a unique encoding" (the generic Value codec)
// Real code (bodies extracted verbatim):
//   sbor/src/value.rs      enum Value, Value::get_value_kind, <Value as Encode>::{encode_value_kind, encode_body},
//                          <Value as Decode>::decode_body_with_value_kind
//   sbor/src/encoder.rs    provided methods Encoder::{encode, write_value_kind, write_discriminator, write_size},
//                          VecEncoder::{new, track_stack_depth_increase, track_stack_depth_decrease},
//                          <VecEncoder as Encoder>::{encode_deeper_body, write_byte}
//   sbor/src/value_kind.rs enum ValueKind, ValueKind::{as_u8, from_u8}
//   sbor/src/codec/{boolean.rs, integer.rs}   Encode for bool / i8 / u8
// METHOD: the recursion of the codec goes through the trait methods encoder.encode(child) / encode_deeper_body(child),
//   so every function is verified as ONE inductive step against the trait-level contracts of `Encode`
//   (stated over the spec companion trait `Wire`: kind / body / encodable of a value).
use vstd::prelude::*;
verus! {
global size_of usize == 8;
/*@include shims/rt.rs @*/

pub mod env {
    use vstd::prelude::*;
    pub use core::marker::PhantomData;
    use super::unit::{ValueKind, kind_byte};

    /*@item sbor/src/decoder.rs :: enum DecodeError
    @derive Copy, Clone, PartialEq, Eq
    @*/
    /*@item sbor/src/encoder.rs :: enum EncodeError
    @derive Clone, PartialEq, Eq
    @*/

    /// sbor/src/value_kind.rs :: trait CustomValueKind, re-declared with a functional contract and the LAW every
    /// custom extension has to obey (proved below for ScryptoCustomValueKind and ManifestCustomValueKind):
    /// custom kinds live in the extension range 0x80.. and as_u8 / from_u8 are mutually inverse.
    pub trait CustomValueKind: Copy + Clone + PartialEq + Eq {
        spec fn as_u8_spec(&self) -> u8;
        spec fn from_u8_spec(id: u8) -> Option<Self>;
        fn as_u8(&self) -> (r: u8) ensures r == self.as_u8_spec();
        fn from_u8(id: u8) -> (r: Option<Self>) ensures r == Self::from_u8_spec(id);
        proof fn law_custom_kind(x: Self, id: u8)
            ensures
                x.as_u8_spec() >= 0x80,
                Self::from_u8_spec(x.as_u8_spec()) == Some(x),
                Self::from_u8_spec(id) matches Some(y) ==> y.as_u8_spec() == id;
    }

    /// SPEC COMPANION of the codec traits: what the SBOR wire format prescribes for a value of this type.
    pub trait Wire<X: CustomValueKind> {
        /// the value kind announced in front of the body
        spec fn kind(&self) -> ValueKind<X>;
        /// the body bytes
        spec fn body(&self) -> Seq<u8>;
        /// the value can be encoded when `budget` = max_depth - stack_depth levels are left below it
        /// (element kinds consistent, sizes <= 0x0FFF_FFFF, nesting within the depth limit)
        spec fn encodable(&self, budget: int) -> bool;
    }

    /// ghost state of an encoder: bytes written so far, (stack_depth, max_depth)
    pub trait EncoderState: Sized {
        spec fn out(&self) -> Seq<u8>;
        spec fn depths(&self) -> (int, int);
    }
    /// representation invariant of the depth counters (max_depth < usize::MAX is a machine-range assumption)
    pub open spec fn wf_depths(d: (int, int)) -> bool { 0 <= d.0 <= d.1 < usize::MAX }
    pub open spec fn budget(d: (int, int)) -> int { d.1 - d.0 }
    /// a CHILD value can be encoded one level deeper
    pub open spec fn passes<X: CustomValueKind, T: Wire<X> + ?Sized>(v: &T, budget: int) -> bool {
        budget >= 1 && v.encodable(budget - 1)
    }

    /// CONTRACT of `Encode::encode_value_kind`: exactly the kind byte is appended
    pub open spec fn enc_kind_post<X: CustomValueKind, T: Wire<X> + ?Sized>(v: &T, o0: Seq<u8>, d0: (int, int), o1: Seq<u8>, d1: (int, int), ret: Result<(), EncodeError>) -> bool {
        ret is Ok && o1 == o0.push(kind_byte(v.kind())) && d1 == d0
    }
    /// CONTRACT of `Encode::encode_body` (E1 + E2): Ok exactly for encodable values; on Ok exactly the body bytes
    /// are appended and the depth counters are back at their entry values; max_depth never changes.
    pub open spec fn enc_body_post<X: CustomValueKind, T: Wire<X> + ?Sized>(v: &T, o0: Seq<u8>, d0: (int, int), o1: Seq<u8>, d1: (int, int), ret: Result<(), EncodeError>) -> bool {
        &&& d1.1 == d0.1
        &&& ret is Ok <==> v.encodable(budget(d0))
        &&& ret is Ok ==> o1 =~= o0 + v.body() && d1 == d0
    }

    /// sbor/src/encode.rs :: trait Encode. This contract is the INDUCTION HYPOTHESIS for child values; it is
    /// PROVED for Value<X, Y> (through the mirror trait `EncodeStep`), bool, i8, u8 in `unit` and ASSUMED for the
    /// other primitive codecs and for custom values.
    pub trait Encode<X: CustomValueKind, E: EncoderState>: Wire<X> {
        fn encode_value_kind(&self, encoder: &mut E) -> (ret: Result<(), EncodeError>)
            ensures enc_kind_post(self, old(encoder).out(), old(encoder).depths(), final(encoder).out(), final(encoder).depths(), ret);
        fn encode_body(&self, encoder: &mut E) -> (ret: Result<(), EncodeError>)
            requires wf_depths(old(encoder).depths())
            ensures enc_body_post(self, old(encoder).out(), old(encoder).depths(), final(encoder).out(), final(encoder).depths(), ret);
    }
    /// INDUCTION HYPOTHESIS for nested values: `impl Encode for Value<X, Y>` carries exactly the trait contract.
    /// Verus rejects an impl whose method bodies call generic functions instantiated with the impl itself
    /// (recursion through the trait dictionary: encode_body -> encoder.encode::<Value> -> encode_body), so the
    /// VERBATIM bodies of sbor/src/value.rs are verified in `unit` as the impl of the mirror trait `EncodeStep`
    /// (same signatures, same contract predicates enc_kind_post / enc_body_post) -- the usual proof rule for
    /// recursive procedures (partial correctness): assume the contract for the recursive calls, prove the body.
    impl<X: CustomValueKind, E: super::unit::Encoder<X>, Y: Encode<X, E> + CustomValue<X>> Encode<X, E> for super::unit::Value<X, Y> {
        #[verifier::external_body]
        fn encode_value_kind(&self, encoder: &mut E) -> (ret: Result<(), EncodeError>) { unimplemented!() }
        #[verifier::external_body]
        fn encode_body(&self, encoder: &mut E) -> (ret: Result<(), EncodeError>) { unimplemented!() }
    }

    /// ASSUMED (NOT under contract): the codecs of the multi-byte integers (macro-generated by `encode_int!`, via
    /// write_slice + to_le_bytes) and of String (write_size + write_slice of the UTF-8 bytes) in
    /// sbor/src/codec/{integer,string}.rs meet the `Encode` contract for the oracle bodies given in `unit`
    /// (k little-endian bytes, two's complement; leb(len) ++ UTF-8 bytes).
    impl<X: CustomValueKind, E: super::unit::Encoder<X>> Encode<X, E> for i8 {
        #[verifier::external_body]
        fn encode_value_kind(&self, encoder: &mut E) -> (ret: Result<(), EncodeError>) { unimplemented!() }
        #[verifier::external_body]
        fn encode_body(&self, encoder: &mut E) -> (ret: Result<(), EncodeError>) { unimplemented!() }
    }
    impl<X: CustomValueKind, E: super::unit::Encoder<X>> Encode<X, E> for i16 {
        #[verifier::external_body]
        fn encode_value_kind(&self, encoder: &mut E) -> (ret: Result<(), EncodeError>) { unimplemented!() }
        #[verifier::external_body]
        fn encode_body(&self, encoder: &mut E) -> (ret: Result<(), EncodeError>) { unimplemented!() }
    }
    impl<X: CustomValueKind, E: super::unit::Encoder<X>> Encode<X, E> for i32 {
        #[verifier::external_body]
        fn encode_value_kind(&self, encoder: &mut E) -> (ret: Result<(), EncodeError>) { unimplemented!() }
        #[verifier::external_body]
        fn encode_body(&self, encoder: &mut E) -> (ret: Result<(), EncodeError>) { unimplemented!() }
    }
    impl<X: CustomValueKind, E: super::unit::Encoder<X>> Encode<X, E> for i64 {
        #[verifier::external_body]
        fn encode_value_kind(&self, encoder: &mut E) -> (ret: Result<(), EncodeError>) { unimplemented!() }
        #[verifier::external_body]
        fn encode_body(&self, encoder: &mut E) -> (ret: Result<(), EncodeError>) { unimplemented!() }
    }
    impl<X: CustomValueKind, E: super::unit::Encoder<X>> Encode<X, E> for i128 {
        #[verifier::external_body]
        fn encode_value_kind(&self, encoder: &mut E) -> (ret: Result<(), EncodeError>) { unimplemented!() }
        #[verifier::external_body]
        fn encode_body(&self, encoder: &mut E) -> (ret: Result<(), EncodeError>) { unimplemented!() }
    }
    impl<X: CustomValueKind, E: super::unit::Encoder<X>> Encode<X, E> for u16 {
        #[verifier::external_body]
        fn encode_value_kind(&self, encoder: &mut E) -> (ret: Result<(), EncodeError>) { unimplemented!() }
        #[verifier::external_body]
        fn encode_body(&self, encoder: &mut E) -> (ret: Result<(), EncodeError>) { unimplemented!() }
    }
    impl<X: CustomValueKind, E: super::unit::Encoder<X>> Encode<X, E> for u32 {
        #[verifier::external_body]
        fn encode_value_kind(&self, encoder: &mut E) -> (ret: Result<(), EncodeError>) { unimplemented!() }
        #[verifier::external_body]
        fn encode_body(&self, encoder: &mut E) -> (ret: Result<(), EncodeError>) { unimplemented!() }
    }
    impl<X: CustomValueKind, E: super::unit::Encoder<X>> Encode<X, E> for u64 {
        #[verifier::external_body]
        fn encode_value_kind(&self, encoder: &mut E) -> (ret: Result<(), EncodeError>) { unimplemented!() }
        #[verifier::external_body]
        fn encode_body(&self, encoder: &mut E) -> (ret: Result<(), EncodeError>) { unimplemented!() }
    }
    impl<X: CustomValueKind, E: super::unit::Encoder<X>> Encode<X, E> for u128 {
        #[verifier::external_body]
        fn encode_value_kind(&self, encoder: &mut E) -> (ret: Result<(), EncodeError>) { unimplemented!() }
        #[verifier::external_body]
        fn encode_body(&self, encoder: &mut E) -> (ret: Result<(), EncodeError>) { unimplemented!() }
    }
    impl<X: CustomValueKind, E: super::unit::Encoder<X>> Encode<X, E> for String {
        #[verifier::external_body]
        fn encode_value_kind(&self, encoder: &mut E) -> (ret: Result<(), EncodeError>) { unimplemented!() }
        #[verifier::external_body]
        fn encode_body(&self, encoder: &mut E) -> (ret: Result<(), EncodeError>) { unimplemented!() }
    }

    /// sbor/src/value.rs :: trait CustomValue
    pub trait CustomValue<X: CustomValueKind>: Wire<X> {
        fn get_custom_value_kind(&self) -> (r: X)
            ensures ValueKind::Custom(r) == self.kind();
    }

    /// sbor/src/categorize.rs :: trait Categorize; ASSUMED instances = the `categorize_simple!` invocations in
    /// sbor/src/codec/{boolean,integer}.rs (macro invocations cannot be extracted)
    pub trait Categorize<X: CustomValueKind> {
        spec fn value_kind_spec() -> ValueKind<X>;
        fn value_kind() -> (r: ValueKind<X>) ensures r == Self::value_kind_spec();
    }
    impl<X: CustomValueKind> Categorize<X> for bool {
        open spec fn value_kind_spec() -> ValueKind<X> { ValueKind::Bool }
        fn value_kind() -> (r: ValueKind<X>) { ValueKind::Bool }
    }
    impl<X: CustomValueKind> Categorize<X> for u8 {
        open spec fn value_kind_spec() -> ValueKind<X> { ValueKind::U8 }
        fn value_kind() -> (r: ValueKind<X>) { ValueKind::U8 }
    }
}

pub mod unit {
    use vstd::prelude::*;
    use super::rt::*;
    use super::env::*;
    broadcast use vstd::std_specs::vec::axiom_vec_index_decreases;

    // =============================================================================================
    // value kinds (sbor/src/value_kind.rs)
    // =============================================================================================
    /*@item sbor/src/constants.rs :: const CUSTOM_VALUE_KIND_START
    @*/
    /*@item sbor/src/value_kind.rs :: const VALUE_KIND_BOOL
    @*/
    /*@item sbor/src/value_kind.rs :: const VALUE_KIND_I8
    @*/
    /*@item sbor/src/value_kind.rs :: const VALUE_KIND_I16
    @*/
    /*@item sbor/src/value_kind.rs :: const VALUE_KIND_I32
    @*/
    /*@item sbor/src/value_kind.rs :: const VALUE_KIND_I64
    @*/
    /*@item sbor/src/value_kind.rs :: const VALUE_KIND_I128
    @*/
    /*@item sbor/src/value_kind.rs :: const VALUE_KIND_U8
    @*/
    /*@item sbor/src/value_kind.rs :: const VALUE_KIND_U16
    @*/
    /*@item sbor/src/value_kind.rs :: const VALUE_KIND_U32
    @*/
    /*@item sbor/src/value_kind.rs :: const VALUE_KIND_U64
    @*/
    /*@item sbor/src/value_kind.rs :: const VALUE_KIND_U128
    @*/
    /*@item sbor/src/value_kind.rs :: const VALUE_KIND_STRING
    @*/
    /*@item sbor/src/value_kind.rs :: const VALUE_KIND_ARRAY
    @*/
    /*@item sbor/src/value_kind.rs :: const VALUE_KIND_TUPLE
    @*/
    /*@item sbor/src/value_kind.rs :: const VALUE_KIND_ENUM
    @*/
    /*@item sbor/src/value_kind.rs :: const VALUE_KIND_MAP
    @*/
    /*@item sbor/src/value_kind.rs :: enum ValueKind
    @derive Clone, Copy, PartialEq, Eq
    @*/
    /// ASSUMED: the derived `PartialEq` of `ValueKind<X>` is structural equality
    impl<X: CustomValueKind> vstd::std_specs::cmp::PartialEqSpecImpl for ValueKind<X> {
        open spec fn obeys_eq_spec() -> bool { true }
        open spec fn eq_spec(&self, other: &Self) -> bool { *self == *other }
    }

    /// ORACLE (SBOR wire format): the byte that announces a value kind
    pub open spec fn kind_byte<X: CustomValueKind>(k: ValueKind<X>) -> u8 {
        match k {
            ValueKind::Bool => 0x01, ValueKind::I8 => 0x02, ValueKind::I16 => 0x03, ValueKind::I32 => 0x04,
            ValueKind::I64 => 0x05, ValueKind::I128 => 0x06, ValueKind::U8 => 0x07, ValueKind::U16 => 0x08,
            ValueKind::U32 => 0x09, ValueKind::U64 => 0x0a, ValueKind::U128 => 0x0b, ValueKind::String => 0x0c,
            ValueKind::Array => 0x20, ValueKind::Tuple => 0x21, ValueKind::Enum => 0x22, ValueKind::Map => 0x23,
            ValueKind::Custom(x) => x.as_u8_spec(),
        }
    }
    /// ORACLE: the kind announced by a byte (bytes >= 0x80 belong to the custom extension)
    pub open spec fn byte_kind<X: CustomValueKind>(id: u8) -> Option<ValueKind<X>> {
        if id == 0x01 { Some(ValueKind::Bool) } else if id == 0x02 { Some(ValueKind::I8) }
        else if id == 0x03 { Some(ValueKind::I16) } else if id == 0x04 { Some(ValueKind::I32) }
        else if id == 0x05 { Some(ValueKind::I64) } else if id == 0x06 { Some(ValueKind::I128) }
        else if id == 0x07 { Some(ValueKind::U8) } else if id == 0x08 { Some(ValueKind::U16) }
        else if id == 0x09 { Some(ValueKind::U32) } else if id == 0x0a { Some(ValueKind::U64) }
        else if id == 0x0b { Some(ValueKind::U128) } else if id == 0x0c { Some(ValueKind::String) }
        else if id == 0x20 { Some(ValueKind::Array) } else if id == 0x21 { Some(ValueKind::Tuple) }
        else if id == 0x22 { Some(ValueKind::Enum) } else if id == 0x23 { Some(ValueKind::Map) }
        else if id >= 0x80 { match X::from_u8_spec(id) { Some(x) => Some(ValueKind::Custom(x)), None => None } }
        else { None }
    }

    impl<X: CustomValueKind> ValueKind<X> {
        /*@fn sbor/src/value_kind.rs :: impl<X: CustomValueKind> ValueKind<X> :: fn as_u8
        @sig
            ensures ret == kind_byte(*self)
        @*/
        /*@fn sbor/src/value_kind.rs :: impl<X: CustomValueKind> ValueKind<X> :: fn from_u8
        @sig
            ensures ret == byte_kind::<X>(id)
        @subst <<.map(ValueKind::Custom)>> => <<.map(|x: X| -> (r: ValueKind<X>) ensures r == ValueKind::Custom(x) { ValueKind::Custom(x) })>> why: Verus rejects a constructor used as a function value; eta-expanded, same function
        @*/
    }

    // =============================================================================================
    // ORACLE: the SBOR wire format of a Value  (written from the format description, not from the code)
    // =============================================================================================
    pub open spec fn max_size() -> nat { 0x0FFF_FFFF }

    /// unsigned LEB128 (see unit c20_size_codec)
    pub open spec fn leb(n: nat) -> Seq<u8>
        decreases n
    {
        if n < 128 { seq![n as u8] } else { seq![(n % 128 + 128) as u8] + leb(n / 128) }
    }
    /// k little-endian bytes of n
    pub open spec fn le_bytes(n: nat, k: nat) -> Seq<u8>
        decreases k
    {
        if k == 0 { Seq::<u8>::empty() } else { seq![(n % 256) as u8] + le_bytes(n / 256, (k - 1) as nat) }
    }
    /// two's complement of a signed integer in `k` bytes
    pub open spec fn twos(v: int, modulus: int) -> nat { if v >= 0 { v as nat } else { (v + modulus) as nat } }
    pub open spec fn bool_body(b: bool) -> Seq<u8> { seq![if b { 1u8 } else { 0u8 }] }
    pub open spec fn i8_body(v: i8) -> Seq<u8> { seq![twos(v as int, 0x100) as u8] }
    pub open spec fn u8_body(v: u8) -> Seq<u8> { seq![v] }
    pub open spec fn i16_body(v: i16) -> Seq<u8> { le_bytes(twos(v as int, 0x1_0000), 2) }
    pub open spec fn i32_body(v: i32) -> Seq<u8> { le_bytes(twos(v as int, 0x1_0000_0000), 4) }
    pub open spec fn i64_body(v: i64) -> Seq<u8> { le_bytes(twos(v as int, 0x1_0000_0000_0000_0000), 8) }
    pub open spec fn i128_body(v: i128) -> Seq<u8> { le_bytes(twos(v as int, 0x1_0000_0000_0000_0000int * 0x1_0000_0000_0000_0000int), 16) }
    pub open spec fn u16_body(v: u16) -> Seq<u8> { le_bytes(v as nat, 2) }
    pub open spec fn u32_body(v: u32) -> Seq<u8> { le_bytes(v as nat, 4) }
    pub open spec fn u64_body(v: u64) -> Seq<u8> { le_bytes(v as nat, 8) }
    pub open spec fn u128_body(v: u128) -> Seq<u8> { le_bytes(v as nat, 16) }
    pub open spec fn str_bytes(s: String) -> Seq<u8> { vstd::utf8::encode_utf8(s@) }
    pub open spec fn string_body(s: String) -> Seq<u8> { leb(str_bytes(s).len()) + str_bytes(s) }

    /*@item sbor/src/value.rs :: enum Value
    @derive Nothing
    @*/

    /// the value kind of a value
    pub open spec fn kind_of<X: CustomValueKind, Y: CustomValue<X>>(v: Value<X, Y>) -> ValueKind<X> {
        match v {
            Value::Bool { .. } => ValueKind::Bool, Value::I8 { .. } => ValueKind::I8, Value::I16 { .. } => ValueKind::I16,
            Value::I32 { .. } => ValueKind::I32, Value::I64 { .. } => ValueKind::I64, Value::I128 { .. } => ValueKind::I128,
            Value::U8 { .. } => ValueKind::U8, Value::U16 { .. } => ValueKind::U16, Value::U32 { .. } => ValueKind::U32,
            Value::U64 { .. } => ValueKind::U64, Value::U128 { .. } => ValueKind::U128, Value::String { .. } => ValueKind::String,
            Value::Enum { .. } => ValueKind::Enum, Value::Array { .. } => ValueKind::Array, Value::Tuple { .. } => ValueKind::Tuple,
            Value::Map { .. } => ValueKind::Map,
            Value::Custom { value } => value.kind(),
        }
    }

    /// body bytes of a value:
    ///   Tuple = leb(n) ++ enc(f_0) ++ .. ;  Enum = [discriminator] ++ leb(n) ++ enc(f_i) .. ;
    ///   Array = [element kind] ++ leb(n) ++ body(e_i) .. ;  Map = [key kind] ++ [value kind] ++ leb(n) ++ body(k_i) ++ body(v_i) ..
    ///   where enc(v) = [kind byte of v] ++ body(v)
    pub open spec fn enc_body<X: CustomValueKind, Y: CustomValue<X>>(v: Value<X, Y>) -> Seq<u8>
        decreases v, 0nat
    {
        match v {
            Value::Bool { value } => bool_body(value),
            Value::I8 { value } => i8_body(value),
            Value::I16 { value } => i16_body(value),
            Value::I32 { value } => i32_body(value),
            Value::I64 { value } => i64_body(value),
            Value::I128 { value } => i128_body(value),
            Value::U8 { value } => u8_body(value),
            Value::U16 { value } => u16_body(value),
            Value::U32 { value } => u32_body(value),
            Value::U64 { value } => u64_body(value),
            Value::U128 { value } => u128_body(value),
            Value::String { value } => string_body(value),
            Value::Enum { discriminator, fields } =>
                seq![discriminator] + leb(fields@.len()) + enc_list(fields, fields@.len(), true),
            Value::Array { element_value_kind, elements } =>
                seq![kind_byte(element_value_kind)] + leb(elements@.len()) + enc_list(elements, elements@.len(), false),
            Value::Tuple { fields } =>
                leb(fields@.len()) + enc_list(fields, fields@.len(), true),
            Value::Map { key_value_kind, value_value_kind, entries } =>
                seq![kind_byte(key_value_kind)] + seq![kind_byte(value_value_kind)] + leb(entries@.len()) + enc_entries(entries, entries@.len()),
            Value::Custom { value } => value.body(),
        }
    }
    /// concatenation of the first n items; with_kind: each item is preceded by its kind byte
    pub open spec fn enc_list<X: CustomValueKind, Y: CustomValue<X>>(items: Vec<Value<X, Y>>, n: nat, with_kind: bool) -> Seq<u8>
        decreases items, n
    {
        if n == 0 || n > items@.len() { Seq::<u8>::empty() } else {
            enc_list(items, (n - 1) as nat, with_kind)
                + (if with_kind { seq![kind_byte(kind_of(items@[n - 1]))] } else { Seq::<u8>::empty() })
                + enc_body(items@[n - 1])
        }
    }
    /// concatenation of the first n map entries: key body, value body (kinds are announced once, in the header)
    pub open spec fn enc_entries<X: CustomValueKind, Y: CustomValue<X>>(entries: Vec<(Value<X, Y>, Value<X, Y>)>, n: nat) -> Seq<u8>
        decreases entries, n
    {
        if n == 0 || n > entries@.len() { Seq::<u8>::empty() } else {
            enc_entries(entries, (n - 1) as nat) + enc_body(entries@[n - 1].0) + enc_body(entries@[n - 1].1)
        }
    }
    /// full encoding of a value: kind byte, then body
    pub open spec fn enc<X: CustomValueKind, Y: CustomValue<X>>(v: Value<X, Y>) -> Seq<u8> {
        seq![kind_byte(kind_of(v))] + enc_body(v)
    }

    /// ORACLE: which values can be encoded with `budget` levels left below the value:
    /// container sizes (and string lengths) <= 0x0FFF_FFFF, every array element / map key / map value has the
    /// declared kind, every child is itself encodable one level deeper.
    pub open spec fn encodable<X: CustomValueKind, Y: CustomValue<X>>(v: Value<X, Y>, budget: int) -> bool
        decreases v
    {
        match v {
            Value::String { value } => str_bytes(value).len() <= max_size(),
            Value::Enum { discriminator, fields } =>
                fields@.len() <= max_size()
                && forall|j: int| 0 <= j < fields@.len() ==> budget >= 1 && encodable(#[trigger] fields@[j], budget - 1),
            Value::Array { element_value_kind, elements } =>
                elements@.len() <= max_size()
                && forall|j: int| 0 <= j < elements@.len() ==>
                    kind_of(#[trigger] elements@[j]) == element_value_kind && budget >= 1 && encodable(elements@[j], budget - 1),
            Value::Tuple { fields } =>
                fields@.len() <= max_size()
                && forall|j: int| 0 <= j < fields@.len() ==> budget >= 1 && encodable(#[trigger] fields@[j], budget - 1),
            Value::Map { key_value_kind, value_value_kind, entries } =>
                entries@.len() <= max_size()
                && forall|j: int| 0 <= j < entries@.len() ==>
                    kind_of((#[trigger] entries@[j]).0) == key_value_kind && kind_of(entries@[j].1) == value_value_kind
                    && budget >= 1 && encodable(entries@[j].0, budget - 1) && encodable(entries@[j].1, budget - 1),
            Value::Custom { value } => value.encodable(budget),
            _ => true,
        }
    }


    /// E2, FIRST OFFENDER: element j of an array is the first one with a kind different from the declared one
    /// (all earlier elements were encodable)
    pub open spec fn first_bad_elem<X: CustomValueKind, Y: CustomValue<X>>(v: Value<X, Y>, b: int, j: int) -> bool {
        &&& v is Array && v->Array_elements@.len() <= max_size() && 0 <= j < v->Array_elements@.len()
        &&& kind_of(v->Array_elements@[j]) != v->Array_element_value_kind
        &&& forall|k: int| 0 <= k < j ==> kind_of(#[trigger] v->Array_elements@[k]) == v->Array_element_value_kind
                && b >= 1 && encodable(v->Array_elements@[k], b - 1)
    }
    pub open spec fn entry_ok<X: CustomValueKind, Y: CustomValue<X>>(v: Value<X, Y>, b: int, k: int) -> bool {
        &&& kind_of(v->Map_entries@[k].0) == v->Map_key_value_kind && kind_of(v->Map_entries@[k].1) == v->Map_value_value_kind
        &&& b >= 1 && encodable(v->Map_entries@[k].0, b - 1) && encodable(v->Map_entries@[k].1, b - 1)
    }
    /// the key of entry j is the first offender
    pub open spec fn first_bad_key<X: CustomValueKind, Y: CustomValue<X>>(v: Value<X, Y>, b: int, j: int) -> bool {
        &&& v is Map && v->Map_entries@.len() <= max_size() && 0 <= j < v->Map_entries@.len()
        &&& kind_of(v->Map_entries@[j].0) != v->Map_key_value_kind
        &&& forall|k: int| 0 <= k < j ==> #[trigger] entry_ok(v, b, k)
    }
    /// the value of entry j is the first offender (its key was fine)
    pub open spec fn first_bad_val<X: CustomValueKind, Y: CustomValue<X>>(v: Value<X, Y>, b: int, j: int) -> bool {
        &&& v is Map && v->Map_entries@.len() <= max_size() && 0 <= j < v->Map_entries@.len()
        &&& kind_of(v->Map_entries@[j].0) == v->Map_key_value_kind && b >= 1 && encodable(v->Map_entries@[j].0, b - 1)
        &&& kind_of(v->Map_entries@[j].1) != v->Map_value_value_kind
        &&& forall|k: int| 0 <= k < j ==> #[trigger] entry_ok(v, b, k)
    }
    /// number of children announced in the header of a container value
    pub open spec fn container_len<X: CustomValueKind, Y: CustomValue<X>>(v: Value<X, Y>) -> Option<nat> {
        match v {
            Value::Enum { discriminator, fields } => Some(fields@.len()),
            Value::Array { element_value_kind, elements } => Some(elements@.len()),
            Value::Tuple { fields } => Some(fields@.len()),
            Value::Map { key_value_kind, value_value_kind, entries } => Some(entries@.len()),
            _ => None,
        }
    }

    impl<X: CustomValueKind, Y: CustomValue<X>> Wire<X> for Value<X, Y> {
        open spec fn kind(&self) -> ValueKind<X> { kind_of(*self) }
        open spec fn body(&self) -> Seq<u8> { enc_body(*self) }
        open spec fn encodable(&self, budget: int) -> bool { encodable(*self, budget) }
    }
    impl<X: CustomValueKind> Wire<X> for bool {
        open spec fn kind(&self) -> ValueKind<X> { ValueKind::Bool }
        open spec fn body(&self) -> Seq<u8> { bool_body(*self) }
        open spec fn encodable(&self, budget: int) -> bool { true }
    }
    impl<X: CustomValueKind> Wire<X> for i8 {
        open spec fn kind(&self) -> ValueKind<X> { ValueKind::I8 }
        open spec fn body(&self) -> Seq<u8> { i8_body(*self) }
        open spec fn encodable(&self, budget: int) -> bool { true }
    }
    impl<X: CustomValueKind> Wire<X> for u8 {
        open spec fn kind(&self) -> ValueKind<X> { ValueKind::U8 }
        open spec fn body(&self) -> Seq<u8> { u8_body(*self) }
        open spec fn encodable(&self, budget: int) -> bool { true }
    }

    impl<X: CustomValueKind> Wire<X> for i16 {
        open spec fn kind(&self) -> ValueKind<X> { ValueKind::I16 }
        open spec fn body(&self) -> Seq<u8> { i16_body(*self) }
        open spec fn encodable(&self, budget: int) -> bool { true }
    }
    impl<X: CustomValueKind> Wire<X> for i32 {
        open spec fn kind(&self) -> ValueKind<X> { ValueKind::I32 }
        open spec fn body(&self) -> Seq<u8> { i32_body(*self) }
        open spec fn encodable(&self, budget: int) -> bool { true }
    }
    impl<X: CustomValueKind> Wire<X> for i64 {
        open spec fn kind(&self) -> ValueKind<X> { ValueKind::I64 }
        open spec fn body(&self) -> Seq<u8> { i64_body(*self) }
        open spec fn encodable(&self, budget: int) -> bool { true }
    }
    impl<X: CustomValueKind> Wire<X> for i128 {
        open spec fn kind(&self) -> ValueKind<X> { ValueKind::I128 }
        open spec fn body(&self) -> Seq<u8> { i128_body(*self) }
        open spec fn encodable(&self, budget: int) -> bool { true }
    }
    impl<X: CustomValueKind> Wire<X> for u16 {
        open spec fn kind(&self) -> ValueKind<X> { ValueKind::U16 }
        open spec fn body(&self) -> Seq<u8> { u16_body(*self) }
        open spec fn encodable(&self, budget: int) -> bool { true }
    }
    impl<X: CustomValueKind> Wire<X> for u32 {
        open spec fn kind(&self) -> ValueKind<X> { ValueKind::U32 }
        open spec fn body(&self) -> Seq<u8> { u32_body(*self) }
        open spec fn encodable(&self, budget: int) -> bool { true }
    }
    impl<X: CustomValueKind> Wire<X> for u64 {
        open spec fn kind(&self) -> ValueKind<X> { ValueKind::U64 }
        open spec fn body(&self) -> Seq<u8> { u64_body(*self) }
        open spec fn encodable(&self, budget: int) -> bool { true }
    }
    impl<X: CustomValueKind> Wire<X> for u128 {
        open spec fn kind(&self) -> ValueKind<X> { ValueKind::U128 }
        open spec fn body(&self) -> Seq<u8> { u128_body(*self) }
        open spec fn encodable(&self, budget: int) -> bool { true }
    }
    impl<X: CustomValueKind> Wire<X> for String {
        open spec fn kind(&self) -> ValueKind<X> { ValueKind::String }
        open spec fn body(&self) -> Seq<u8> { string_body(*self) }
        open spec fn encodable(&self, budget: int) -> bool { str_bytes(*self).len() <= max_size() }
    }

    // =============================================================================================
    // the encoder (sbor/src/encoder.rs)
    // =============================================================================================
    pub proof fn lemma_bv_write(size: usize)
        ensures
            (size & 0x7F) == size % 128,
            (size >> 7) == size / 128,
            ((size & 0x7F) as u8) == size % 128,
            (((size & 0x7F) as u8) | 0x80u8) == size % 128 + 128,
    {
        assert((size & 0x7F) == size % 128) by (bit_vector);
        assert((size >> 7) == size / 128) by (bit_vector);
        let s7: usize = size & 0x7F;
        assert(s7 < 128);
        let b: u8 = s7 as u8;
        assert(b < 128);
        assert((b | 0x80u8) == b + 128) by (bit_vector) requires b < 128;
    }

    pub trait Encoder<X: CustomValueKind>: EncoderState {
        /*@fn sbor/src/encoder.rs :: trait Encoder<X: CustomValueKind>: Sized :: fn encode
        @sig
            requires wf_depths(old(self).depths())
            ensures
                final(self).depths().1 == old(self).depths().1,
                ret is Ok <==> passes(value, budget(old(self).depths())),
                ret is Ok ==> final(self).out() =~= old(self).out().push(kind_byte(value.kind())) + value.body()
                    && final(self).depths() == old(self).depths()
        @*/

        // R12: required method, signature re-declared; the VecEncoder impl below is extracted and must meet it
        fn encode_deeper_body<T: Encode<X, Self> + ?Sized>(&mut self, value: &T) -> (ret: Result<(), EncodeError>)
            requires wf_depths(old(self).depths())
            ensures
                final(self).depths().1 == old(self).depths().1,
                ret is Ok <==> passes(value, budget(old(self).depths())),
                budget(old(self).depths()) < 1 ==> ret == Err::<(), EncodeError>(EncodeError::MaxDepthExceeded(old(self).depths().1 as usize)),
                ret is Ok ==> final(self).out() =~= old(self).out() + value.body() && final(self).depths() == old(self).depths();

        /*@fn sbor/src/encoder.rs :: trait Encoder<X: CustomValueKind>: Sized :: fn write_value_kind
        @sig
            ensures ret is Ok, final(self).out() == old(self).out().push(kind_byte(ty)), final(self).depths() == old(self).depths()
        @*/
        /*@fn sbor/src/encoder.rs :: trait Encoder<X: CustomValueKind>: Sized :: fn write_discriminator
        @sig
            ensures ret is Ok, final(self).out() == old(self).out().push(discriminator), final(self).depths() == old(self).depths()
        @*/
        /*@fn sbor/src/encoder.rs :: trait Encoder<X: CustomValueKind>: Sized :: fn write_size
        @sig
            ensures
                ret is Ok <==> size <= 0x0FFF_FFFF,
                ret matches Err(e) ==> e == (EncodeError::SizeTooLarge { actual: size, max_allowed: 0x0FFF_FFFF }),
                ret is Ok ==> final(self).out() == old(self).out() + leb(size as nat),
                ret is Err ==> final(self).out() == old(self).out(),
                final(self).depths() == old(self).depths()
        @entry
            let ghost n0 = size;
        @loop 1
            invariant_except_break
                size <= 0x0FFF_FFFF,
                old(self).out() + leb(n0 as nat) == self.out() + leb(size as nat),
            invariant
                self.depths() == old(self).depths(),
            ensures
                self.out() == old(self).out() + leb(n0 as nat),
            decreases size
        @before <<let seven_bits>> #1
            let ghost sz = size;
            let ghost o = self.out();
            proof {
                lemma_bv_write(size);
                if sz >= 128 {
                    let h = (sz % 128 + 128) as u8;
                    assert(leb(sz as nat) == seq![h] + leb((sz / 128) as nat));
                    assert(o + (seq![h] + leb((sz / 128) as nat)) =~= o.push(h) + leb((sz / 128) as nat));
                } else {
                    assert(o + leb(sz as nat) =~= o.push(sz as u8));
                }
            }
        @*/

        // R12: required method
        fn write_byte(&mut self, n: u8) -> (ret: Result<(), EncodeError>)
            ensures ret is Ok, final(self).out() == old(self).out().push(n), final(self).depths() == old(self).depths();
    }

    /*@item sbor/src/encoder.rs :: struct VecEncoder
    @*/
    impl<'a, X: CustomValueKind> EncoderState for VecEncoder<'a, X> {
        open spec fn out(&self) -> Seq<u8> { (*self.buf)@ }
        open spec fn depths(&self) -> (int, int) { (self.stack_depth as int, self.max_depth as int) }
    }
    impl<'a, X: CustomValueKind> VecEncoder<'a, X> {
        /*@fn sbor/src/encoder.rs :: impl<'a, X: CustomValueKind> VecEncoder<'a, X> :: fn new
        @sig
            ensures ret.out() == old(buf)@, ret.depths() == (0int, max_depth as int)
        @*/
        /*@fn sbor/src/encoder.rs :: impl<'a, X: CustomValueKind> VecEncoder<'a, X> :: fn track_stack_depth_increase
        @sig
            requires old(self).depths().0 < usize::MAX
            ensures
                final(self).out() == old(self).out(),
                final(self).depths() == (old(self).depths().0 + 1, old(self).depths().1),
                ret is Ok <==> old(self).depths().0 < old(self).depths().1,
                ret matches Err(e) ==> e == EncodeError::MaxDepthExceeded(old(self).max_depth)
        @*/
        /*@fn sbor/src/encoder.rs :: impl<'a, X: CustomValueKind> VecEncoder<'a, X> :: fn track_stack_depth_decrease
        @sig
            requires old(self).depths().0 >= 1
            ensures
                final(self).out() == old(self).out(),
                final(self).depths() == (old(self).depths().0 - 1, old(self).depths().1),
                ret is Ok
        @*/
    }
    impl<'a, X: CustomValueKind> Encoder<X> for VecEncoder<'a, X> {
        /*@fn sbor/src/encoder.rs :: impl<'a, X: CustomValueKind> Encoder<X> for VecEncoder<'a, X> :: fn encode_deeper_body
        @*/
        /*@fn sbor/src/encoder.rs :: impl<'a, X: CustomValueKind> Encoder<X> for VecEncoder<'a, X> :: fn write_byte
        @*/
    }


    // =============================================================================================
    // the Value codec, encode side (sbor/src/value.rs)
    // =============================================================================================
    impl<X: CustomValueKind, Y: CustomValue<X>> Value<X, Y> {
        /*@fn sbor/src/value.rs :: impl<X: CustomValueKind, Y: CustomValue<X>> Value<X, Y> :: fn get_value_kind
        @sig
            ensures ret == kind_of(*self)
        @*/
    }

    /// MIRROR of `Encode` (same method signatures, same contract predicates): see env, "INDUCTION HYPOTHESIS"
    pub trait EncodeStep<X: CustomValueKind, E: EncoderState>: Wire<X> {
        /// additional, type-specific guarantees about the error value (defined in the impl)
        spec fn extra_post(&self, b: int, ret: Result<(), EncodeError>) -> bool;
        fn encode_value_kind(&self, encoder: &mut E) -> (ret: Result<(), EncodeError>)
            ensures enc_kind_post(self, old(encoder).out(), old(encoder).depths(), final(encoder).out(), final(encoder).depths(), ret);
        fn encode_body(&self, encoder: &mut E) -> (ret: Result<(), EncodeError>)
            requires wf_depths(old(encoder).depths())
            ensures enc_body_post(self, old(encoder).out(), old(encoder).depths(), final(encoder).out(), final(encoder).depths(), ret),
                self.extra_post(budget(old(encoder).depths()), ret);
    }
    impl<X: CustomValueKind, E: Encoder<X>, Y: Encode<X, E> + CustomValue<X>> EncodeStep<X, E> for Value<X, Y> {
        /// E2, exact errors: oversized container; FIRST kind-mismatching array element / map key / map value
        open spec fn extra_post(&self, b: int, ret: Result<(), EncodeError>) -> bool {
            &&& (container_len(*self) is Some && container_len(*self)->Some_0 > max_size() ==> ret == Err::<(), EncodeError>(EncodeError::SizeTooLarge { actual: container_len(*self)->Some_0 as usize, max_allowed: 0x0FFF_FFFF }))
            &&& (forall|j: int| first_bad_elem(*self, b, j) ==> ret == Err::<(), EncodeError>(EncodeError::MismatchingArrayElementValueKind {
                    element_value_kind: kind_byte(self->Array_element_value_kind), actual_value_kind: kind_byte(kind_of(self->Array_elements@[j])) }))
            &&& (forall|j: int| first_bad_key(*self, b, j) ==> ret == Err::<(), EncodeError>(EncodeError::MismatchingMapKeyValueKind {
                    key_value_kind: kind_byte(self->Map_key_value_kind), actual_value_kind: kind_byte(kind_of(self->Map_entries@[j].0)) }))
            &&& (forall|j: int| first_bad_val(*self, b, j) ==> ret == Err::<(), EncodeError>(EncodeError::MismatchingMapValueValueKind {
                    value_value_kind: kind_byte(self->Map_value_value_kind), actual_value_kind: kind_byte(kind_of(self->Map_entries@[j].1)) }))
        }
        /*@fn sbor/src/value.rs :: impl<X: CustomValueKind, E: Encoder<X>, Y: Encode<X, E> + CustomValue<X>> Encode<X, E> for Value<X, Y> :: fn encode_value_kind
        @*/
        /*@fn sbor/src/value.rs :: impl<X: CustomValueKind, E: Encoder<X>, Y: Encode<X, E> + CustomValue<X>> Encode<X, E> for Value<X, Y> :: fn encode_body
        @loop 1 iter it
            invariant
                *self is Enum, self->Enum_fields == *fields, self->Enum_discriminator == *discriminator,
                wf_depths(encoder.depths()), encoder.depths() == old(encoder).depths(),
                fields@.len() <= max_size(),
                encoder.out() =~= old(encoder).out() + seq![*discriminator] + leb(fields@.len() as nat) + enc_list(*fields, it.index@ as nat, true),
                forall|j: int| 0 <= j < it.index@ ==> budget(old(encoder).depths()) >= 1 && encodable(#[trigger] fields@[j], budget(old(encoder).depths()) - 1),
        @before <<encoder.encode(field)?>> #1
            proof { assert(*field == fields@[it.index@ as int]); }
        @loop 2 iter it
            invariant
                *self is Array, self->Array_elements == *elements, self->Array_element_value_kind == *element_value_kind,
                wf_depths(encoder.depths()), encoder.depths() == old(encoder).depths(),
                elements@.len() <= max_size(),
                encoder.out() =~= old(encoder).out() + seq![kind_byte(*element_value_kind)] + leb(elements@.len() as nat) + enc_list(*elements, it.index@ as nat, false),
                forall|j: int| 0 <= j < it.index@ ==> kind_of(#[trigger] elements@[j]) == *element_value_kind
                    && budget(old(encoder).depths()) >= 1 && encodable(elements@[j], budget(old(encoder).depths()) - 1),
        @before <<if item.get_value_kind()>> #1
            proof { assert(*item == elements@[it.index@ as int]); }
        @loop 3 iter it
            invariant
                *self is Tuple, self->Tuple_fields == *fields,
                wf_depths(encoder.depths()), encoder.depths() == old(encoder).depths(),
                fields@.len() <= max_size(),
                encoder.out() =~= old(encoder).out() + leb(fields@.len() as nat) + enc_list(*fields, it.index@ as nat, true),
                forall|j: int| 0 <= j < it.index@ ==> budget(old(encoder).depths()) >= 1 && encodable(#[trigger] fields@[j], budget(old(encoder).depths()) - 1),
        @before <<encoder.encode(field)?>> #2
            proof { assert(*field == fields@[it.index@ as int]); }
        @loop 4 iter it
            invariant
                *self is Map, self->Map_entries == *entries, self->Map_key_value_kind == *key_value_kind, self->Map_value_value_kind == *value_value_kind,
                wf_depths(encoder.depths()), encoder.depths() == old(encoder).depths(),
                entries@.len() <= max_size(),
                encoder.out() =~= old(encoder).out() + seq![kind_byte(*key_value_kind)] + seq![kind_byte(*value_value_kind)] + leb(entries@.len() as nat) + enc_entries(*entries, it.index@ as nat),
                forall|j: int| 0 <= j < it.index@ ==> kind_of((#[trigger] entries@[j]).0) == *key_value_kind && kind_of(entries@[j].1) == *value_value_kind
                    && budget(old(encoder).depths()) >= 1 && encodable(entries@[j].0, budget(old(encoder).depths()) - 1) && encodable(entries@[j].1, budget(old(encoder).depths()) - 1),
                forall|j: int| 0 <= j < it.index@ ==> #[trigger] entry_ok(*self, budget(old(encoder).depths()), j),
        @before <<let actual_key_value_kind>> #1
            proof {
                let i = it.index@ as int;
                let b = budget(old(encoder).depths());
                assert(*entry == entries@[i]);
                assert(entry_ok(*self, b, i) == (kind_of(entry.0) == *key_value_kind && kind_of(entry.1) == *value_value_kind
                    && b >= 1 && encodable(entry.0, b - 1) && encodable(entry.1, b - 1)));
            }
        @*/
    }

    // =============================================================================================
    // primitive codecs under contract: bool, i8, u8 (sbor/src/codec/{boolean,integer}.rs)
    // =============================================================================================
    impl<X: CustomValueKind, E: Encoder<X>> Encode<X, E> for bool {
        /*@fn sbor/src/codec/boolean.rs :: impl<X: CustomValueKind, E: Encoder<X>> Encode<X, E> for bool :: fn encode_value_kind
        @*/
        /*@fn sbor/src/codec/boolean.rs :: impl<X: CustomValueKind, E: Encoder<X>> Encode<X, E> for bool :: fn encode_body
        @*/
    }
    impl<X: CustomValueKind, E: Encoder<X>> Encode<X, E> for u8 {
        /*@fn sbor/src/codec/integer.rs :: impl<X: CustomValueKind, E: Encoder<X>> Encode<X, E> for u8 :: fn encode_value_kind
        @*/
        /*@fn sbor/src/codec/integer.rs :: impl<X: CustomValueKind, E: Encoder<X>> Encode<X, E> for u8 :: fn encode_body
        @*/
    }
}
} // verus!
fn main() {}
