// NOT part of unit.rs (unit.rs must report errors 0). Paste before the closing `}` of `pub mod unit` to
// register the finding as an expected-fail obligation (c21_depth::unit::raw_value_subtraverser_budget_KNOWN_FINDING).
// Verified behaviour: FAILS on the unchanged /repo; verifies (errors 0) when traverser.rs is mutated to
// `max_depth: depth_limit - current_depth + 1`.

    // ---- KNOWN FINDING: the depth budget handed to the sub-traverser by RawValue decoding ----------
    /// `RawValue::decode_body_with_value_kind` (sbor/src/encoded_wrappers.rs) measures the raw value with
    /// `calculate_value_tree_body_byte_length(.., decoder.get_stack_depth(), decoder.get_depth_limit())`,
    /// which runs a VecTraverser with `max_depth: depth_limit - current_depth`.  Both argument expressions
    /// and the subtraction are sliced from the real code.  A decode BODY runs after
    /// decode_deeper_body_with_value_kind has already counted the value itself, so the raw value (the
    /// sub-traverser's root, relative depth 1) sits at absolute depth `stack_depth`; a child entered with
    /// `len` containers on the sub-traverser's stack sits at absolute depth stack_depth + len.  Agreement
    /// (C21) demands that the sub-traverser's guard refuses it exactly when the decoder would refuse to go
    /// from depth stack_depth + len - 1 to stack_depth + len.  It does NOT: the budget is one too small
    /// (len = 1, stack_depth + 1 == max_depth).  Replayed on the real crate: finding_replay/OUTPUT.txt
    /// (payload [91, 33, 1, 33, 0], depth limit 2: BasicValue decodes, the encoder accepts, BasicRawValue
    /// is rejected with MaxDepthExceeded(1)).  This obligation is EXPECTED TO FAIL.
    pub fn raw_value_subtraverser_budget_KNOWN_FINDING<'de, X: CustomValueKind>(decoder: &VecDecoder<'de, X>) -> (max_depth: usize)
        requires 1 <= decoder.stack_depth <= decoder.max_depth
        ensures
            forall|len: int| len >= 1 ==>
                (#[trigger] refuses_child(len, max_depth as int) <==> refuses_child(decoder.stack_depth + len - 1, decoder.max_depth as int))
    {
        let current_depth = /*@expr-after sbor/src/encoded_wrappers.rs :: impl<Ext: CustomExtension, D: Decoder<Ext::CustomValueKind>> Decode<Ext::CustomValueKind, D> for RawValue<'_, Ext> :: fn decode_body_with_value_kind :: <<value_kind,>> #1 @*/;
        let depth_limit = /*@expr-after sbor/src/encoded_wrappers.rs :: impl<Ext: CustomExtension, D: Decoder<Ext::CustomValueKind>> Decode<Ext::CustomValueKind, D> for RawValue<'_, Ext> :: fn decode_body_with_value_kind :: <<decoder.get_stack_depth(),>> #1 @*/;
        /*@expr-after sbor/src/traversal/untyped/traverser.rs :: fn calculate_value_tree_body_byte_length :: <<max_depth:>> #1 @*/
    }
    /// What the budget WOULD have to be for agreement (same slices, `+ 1`): shows the oracle is satisfiable
    /// and pins the defect to the off-by-one.
    pub proof fn lemma_agreeing_budget(stack_depth: int, max_depth: int)
        requires 1 <= stack_depth <= max_depth
        ensures forall|len: int| len >= 1 ==>
            (#[trigger] refuses_child(len, max_depth - stack_depth + 1) <==> refuses_child(stack_depth + len - 1, max_depth))
    {}
