// Unit c21_depth -- property C21 "SBOR decoding is total, bounded and depth-consistent" (depth accounting)
// Real code: sbor/src/decoder.rs  VecDecoder::{new, track_stack_depth_increase, track_stack_depth_decrease},
//                                 <VecDecoder as Decoder>::decode_deeper_body_with_value_kind
//            sbor/src/encoder.rs  VecEncoder::{new, track_stack_depth_increase, track_stack_depth_decrease},
//                                 <VecEncoder as Encoder>::encode_deeper_body
//            sbor/src/traversal/untyped/traverser.rs  the container-entry depth guard of VecTraverser::step
//                                 (sliced with @expr / @expr-after; `step` itself is not under contract)
use vstd::prelude::*;
verus! {
/*@include shims/rt.rs @*/

pub mod env {
    use vstd::prelude::*;
    pub use core::marker::PhantomData;
    /// sbor/src/value_kind.rs :: trait CustomValueKind -- only used as a type parameter here
    pub trait CustomValueKind {}
    /*@item sbor/src/value_kind.rs :: enum ValueKind
    @derive Clone, Copy
    @*/
    /*@item sbor/src/encoder.rs :: enum EncodeError
    @derive Clone, PartialEq, Eq
    @*/
    /*@item sbor/src/decoder.rs :: enum DecodeError
    @derive Copy, Clone, PartialEq, Eq
    @*/
    /*@item sbor/src/traversal/untyped/traverser.rs :: struct VecTraverserConfig
    @*/
    /// sbor/src/traversal/untyped/traverser.rs :: struct AncestorState<T> -- one entry per entered
    /// (non-empty) container; only the LENGTH of the ancestor path matters for the depth guard
    pub struct AncestorState { pub container_start_offset: usize, pub current_child_index: usize }
}

pub mod unit {
    use vstd::prelude::*;
    use super::rt::*;
    use super::env::*;

    // ------------------------------------------------------------------------------------------
    // ORACLE (from the property): nesting depth is counted from 1 at the root value; a value at
    // depth d is acceptable iff d <= max_depth.  All three components must refuse a value at depth
    // current+1 exactly when current + 1 > max_depth.
    // ------------------------------------------------------------------------------------------
    pub open spec fn refuses_child(current_depth: int, max_depth: int) -> bool { current_depth + 1 > max_depth }

    // ---- R12: the two codec traits, only the methods needed -------------------------------------
    // Verus rejects the mutual bound cycle of the real traits (Decoder::f<T: Decode<X, Self>> and
    // Decode<X, D: Decoder<X>>), so the ghost depth observer lives in a supertrait and the
    // re-declared Decode / Encode bound their coder parameter by it instead of by Decoder / Encoder.
    pub trait HasDepths {
        /// ghost: (stack_depth, max_depth)
        spec fn depths(&self) -> (int, int);
    }
    pub trait Decoder<X: CustomValueKind>: Sized + HasDepths {
        fn decode_deeper_body_with_value_kind<T: Decode<X, Self>>(&mut self, value_kind: ValueKind<X>) -> (ret: Result<T, DecodeError>)
            requires old(self).depths().0 < usize::MAX
            ensures
                // refused at the boundary, before the body is looked at
                refuses_child(old(self).depths().0, old(self).depths().1) ==> ret == Err::<T, DecodeError>(DecodeError::MaxDepthExceeded(old(self).depths().1 as usize)),
                // depth returns to its entry value
                ret is Ok ==> final(self).depths() == old(self).depths(),
                final(self).depths().1 == old(self).depths().1;
    }
    /// sbor/src/decode.rs :: trait Decode -- ASSUMED (induction hypothesis for the children): a body
    /// decoder that succeeds leaves the depth where it found it, and nobody changes max_depth.
    pub trait Decode<X: CustomValueKind, D: HasDepths>: Sized {
        fn decode_body_with_value_kind(decoder: &mut D, value_kind: ValueKind<X>) -> (ret: Result<Self, DecodeError>)
            ensures
                ret is Ok ==> final(decoder).depths() == old(decoder).depths(),
                final(decoder).depths().1 == old(decoder).depths().1;
    }

    pub trait Encoder<X: CustomValueKind>: Sized + HasDepths {
        fn encode_deeper_body<T: Encode<X, Self> + ?Sized>(&mut self, value: &T) -> (ret: Result<(), EncodeError>)
            requires old(self).depths().0 < usize::MAX
            ensures
                refuses_child(old(self).depths().0, old(self).depths().1) ==> ret == Err::<(), EncodeError>(EncodeError::MaxDepthExceeded(old(self).depths().1 as usize)),
                ret is Ok ==> final(self).depths() == old(self).depths(),
                final(self).depths().1 == old(self).depths().1;
    }
    /// sbor/src/encode.rs :: trait Encode -- ASSUMED as for Decode
    pub trait Encode<X: CustomValueKind, E: HasDepths> {
        fn encode_body(&self, encoder: &mut E) -> (ret: Result<(), EncodeError>)
            ensures
                ret is Ok ==> final(encoder).depths() == old(encoder).depths(),
                final(encoder).depths().1 == old(encoder).depths().1;
    }

    // ---- decoder ---------------------------------------------------------------------------------
    /*@item sbor/src/decoder.rs :: struct VecDecoder
    @*/

    impl<'de, X: CustomValueKind> VecDecoder<'de, X> {
        /*@fn sbor/src/decoder.rs :: impl<'de, X: CustomValueKind> VecDecoder<'de, X> :: fn new
        @sig
            ensures ret.stack_depth == 0, ret.max_depth == max_depth, ret.input@ == input@, ret.offset == 0
        @*/

        /*@fn sbor/src/decoder.rs :: impl<'de, X: CustomValueKind> VecDecoder<'de, X> :: fn track_stack_depth_increase
        @sig
            requires old(self).stack_depth < usize::MAX
            ensures
                ret is Err <==> refuses_child(old(self).stack_depth as int, old(self).max_depth as int),
                ret matches Err(e) ==> e == DecodeError::MaxDepthExceeded(old(self).max_depth),
                // the counter is bumped in BOTH outcomes (an Err leaves the decoder one level too deep)
                final(self).stack_depth == old(self).stack_depth + 1,
                final(self).max_depth == old(self).max_depth,
                final(self).input == old(self).input, final(self).offset == old(self).offset
        @*/

        /*@fn sbor/src/decoder.rs :: impl<'de, X: CustomValueKind> VecDecoder<'de, X> :: fn track_stack_depth_decrease
        @sig
            requires old(self).stack_depth > 0
            ensures
                ret is Ok,
                final(self).stack_depth == old(self).stack_depth - 1,
                final(self).max_depth == old(self).max_depth,
                final(self).input == old(self).input, final(self).offset == old(self).offset
        @*/
    }

    impl<'de, X: CustomValueKind> HasDepths for VecDecoder<'de, X> {
        open spec fn depths(&self) -> (int, int) { (self.stack_depth as int, self.max_depth as int) }
    }
    impl<'de, X: CustomValueKind> Decoder<X> for VecDecoder<'de, X> {
        /*@fn sbor/src/decoder.rs :: impl<'de, X: CustomValueKind> Decoder<X> for VecDecoder<'de, X> :: fn decode_deeper_body_with_value_kind
        @*/
    }

    // ---- encoder ---------------------------------------------------------------------------------
    /*@item sbor/src/encoder.rs :: struct VecEncoder
    @*/

    impl<'a, X: CustomValueKind> VecEncoder<'a, X> {
        /*@fn sbor/src/encoder.rs :: impl<'a, X: CustomValueKind> VecEncoder<'a, X> :: fn new
        @sig
            ensures ret.stack_depth == 0, ret.max_depth == max_depth
        @*/

        /*@fn sbor/src/encoder.rs :: impl<'a, X: CustomValueKind> VecEncoder<'a, X> :: fn track_stack_depth_increase
        @sig
            requires old(self).stack_depth < usize::MAX
            ensures
                ret is Err <==> refuses_child(old(self).stack_depth as int, old(self).max_depth as int),
                ret matches Err(e) ==> e == EncodeError::MaxDepthExceeded(old(self).max_depth),
                final(self).stack_depth == old(self).stack_depth + 1,
                final(self).max_depth == old(self).max_depth,
                (*final(self).buf)@ == (*old(self).buf)@
        @*/

        /*@fn sbor/src/encoder.rs :: impl<'a, X: CustomValueKind> VecEncoder<'a, X> :: fn track_stack_depth_decrease
        @sig
            requires old(self).stack_depth > 0
            ensures
                ret is Ok,
                final(self).stack_depth == old(self).stack_depth - 1,
                final(self).max_depth == old(self).max_depth,
                (*final(self).buf)@ == (*old(self).buf)@
        @*/
    }

    impl<'a, X: CustomValueKind> HasDepths for VecEncoder<'a, X> {
        open spec fn depths(&self) -> (int, int) { (self.stack_depth as int, self.max_depth as int) }
    }
    impl<'a, X: CustomValueKind> Encoder<X> for VecEncoder<'a, X> {
        /*@fn sbor/src/encoder.rs :: impl<'a, X: CustomValueKind> Encoder<X> for VecEncoder<'a, X> :: fn encode_deeper_body
        @*/
    }

    // ---- traverser: the container-entry depth guard of VecTraverser::step ------------------------
    // `step` pushes the (non-empty) container on `ancestor_path` and then evaluates this guard; the
    // first child would be read at depth ancestor_path.len() + 1.  Both the condition and the error
    // value are sliced from the real function on every run.
    pub fn traverser_entry_guard(ancestor_path: &Vec<AncestorState>, config: &VecTraverserConfig) -> (ret: Option<DecodeError>)
        ensures
            ret is Some <==> refuses_child(ancestor_path.len() as int, config.max_depth as int),
            ret matches Some(e) ==> e == DecodeError::MaxDepthExceeded(config.max_depth),
    {
        if /*@expr sbor/src/traversal/untyped/traverser.rs :: impl<'de, T: CustomTraversal> VecTraverser<'de, T> :: fn step :: <<DecodeError::MaxDepthExceeded(config.max_depth)>> #1 @*/ {
            Some(/*@expr-after sbor/src/traversal/untyped/traverser.rs :: impl<'de, T: CustomTraversal> VecTraverser<'de, T> :: fn step :: <<.complete_with_error(>> #2 @*/)
        } else {
            None
        }
    }

    // ---- C21 agreement: one boundary for all three -------------------------------------------------
    /// A traverser that has entered `ancestor_path.len()` containers and a decoder at the same
    /// nesting depth with the same limit take the same decision about one more level, and report
    /// the same error value.
    pub fn traverser_agrees_with_decoder<'de, X: CustomValueKind>(
        decoder: &mut VecDecoder<'de, X>, ancestor_path: &Vec<AncestorState>, config: &VecTraverserConfig,
    ) -> (r: (Option<DecodeError>, Result<(), DecodeError>))
        requires
            old(decoder).stack_depth == ancestor_path.len(), old(decoder).max_depth == config.max_depth,
            old(decoder).stack_depth < usize::MAX,
        ensures
            r.0 is Some <==> r.1 is Err,
            r.0 matches Some(e) ==> r.1 == Err::<(), DecodeError>(e),
    {
        let t = traverser_entry_guard(ancestor_path, config);
        let d = decoder.track_stack_depth_increase();
        (t, d)
    }

    /// Encoder and decoder at the same depth with the same limit refuse / accept together, and
    /// end at the same depth.
    pub fn encoder_agrees_with_decoder<'a, 'de, X: CustomValueKind>(
        encoder: &mut VecEncoder<'a, X>, decoder: &mut VecDecoder<'de, X>,
    ) -> (r: (Result<(), EncodeError>, Result<(), DecodeError>))
        requires
            old(encoder).stack_depth == old(decoder).stack_depth, old(encoder).max_depth == old(decoder).max_depth,
            old(decoder).stack_depth < usize::MAX,
        ensures
            r.0 is Err <==> r.1 is Err,
            r.0 matches Err(e) ==> e == EncodeError::MaxDepthExceeded(old(decoder).max_depth) && r.1 == Err::<(), DecodeError>(DecodeError::MaxDepthExceeded(old(decoder).max_depth)),
            final(encoder).stack_depth == final(decoder).stack_depth,
    {
        let e = encoder.track_stack_depth_increase();
        let d = decoder.track_stack_depth_increase();
        (e, d)
    }

    /// The degenerate limit: the decoder (and the encoder) apply the test to the ROOT value as well
    /// (depth 0 -> 1), so with max_depth == 0 they refuse every payload; for every larger limit the
    /// root is accepted.  The traverser evaluates its guard only after pushing a container
    /// (ancestor_path.len() >= 1), i.e. never for the root: with max_depth == 0 it still accepts a
    /// payload whose root is a leaf or an empty container.  This is the only configuration in which
    /// the two disagree about depth.
    pub proof fn lemma_root_refused_only_for_zero_limit(max_depth: int)
        requires max_depth >= 0
        ensures refuses_child(0, max_depth) <==> max_depth == 0
    {}
}
} // verus!
fn main() {}
