// Unit c21_depth -- property C21 "SBOR decoding is total, bounded and depth-consistent" (depth accounting)
// Real code: sbor/src/decoder.rs  VecDecoder::{new, track_stack_depth_increase, track_stack_depth_decrease},
//                                 <VecDecoder as Decoder>::decode_deeper_body_with_value_kind
//            sbor/src/encoder.rs  VecEncoder::{new, track_stack_depth_increase, track_stack_depth_decrease},
//                                 <VecEncoder as Encoder>::encode_deeper_body
//            sbor/src/traversal/untyped/traverser.rs  the container-entry depth guard of VecTraverser::step
//                                 (sliced with @expr / @expr-after; `step` itself is not under contract)
use vstd::prelude::*;
verus! {
/*@include shims/rt.rs @*/

pub mod env {
    use vstd::prelude::*;
    pub use core::marker::PhantomData;
    /// sbor/src/value_kind.rs :: trait CustomValueKind -- only used as a type parameter here
    pub trait CustomValueKind {}
    /*@item sbor/src/value_kind.rs :: enum ValueKind
    @derive Clone, Copy
    @*/
    /*@item sbor/src/encoder.rs :: enum EncodeError
    @derive Clone, PartialEq, Eq
    @*/
    /*@item sbor/src/decoder.rs :: enum DecodeError
    @derive Copy, Clone, PartialEq, Eq
    @*/
    /*@item sbor/src/traversal/untyped/traverser.rs :: struct VecTraverserConfig
    @*/
    /// sbor/src/traversal/untyped/traverser.rs :: trait CustomTraversal -- R12: only the associated
    /// value-kind type is needed (the real trait also has CustomTerminalValueRef and read_custom_value_body)
    pub trait CustomTraversal { type CustomValueKind: CustomValueKind; }
    // (the container header types are extracted in `unit`, next to ContainerHeader::get_child_count)
    pub use super::unit::{TupleHeader, EnumVariantHeader, ArrayHeader, MapHeader, ContainerHeader};
    /*@item sbor/src/traversal/untyped/traverser.rs :: struct AncestorState
    @derive Nothing
    @*/
    /*@item sbor/src/traversal/untyped/traverser.rs :: enum NextAction
    @derive Nothing
    @*/
    impl<T: CustomTraversal> AncestorState<T> {
        /// NOT under contract (irrelevant to depth): which value kind the current child is known to have
        #[verifier::external_body]
        pub fn get_implicit_value_kind_of_current_child(&self) -> Option<ValueKind<T::CustomValueKind>> { unimplemented!() }
    }

    /// Ghost description of where an event returned by `step` came from (which ActionHandler
    /// method completed it).  `Value` / `ByteArray` / `End` stand for "whatever reading the next
    /// value / byte batch / the end check produced" -- possibly a decode error of its own, but not
    /// one raised by the traverser's depth guard.
    pub enum Origin<T: CustomTraversal> {
        Error(DecodeError),
        ContainerEnd(ContainerHeader<T>),
        Value(Option<ValueKind<T::CustomValueKind>>),
        ByteArray(usize),
        End,
    }
    /// sbor/src/traversal/untyped/events.rs :: struct LocatedTraversalEvent -- opaque here
    #[verifier::external_body]
    #[verifier::reject_recursive_types(T)]
    pub struct LocatedTraversalEvent<'t, 'de, T: CustomTraversal> { p: PhantomData<(&'t (), &'de (), T)> }
    impl<'t, 'de, T: CustomTraversal> LocatedTraversalEvent<'t, 'de, T> {
        pub uninterp spec fn origin(&self) -> Origin<T>;
        /// location.ancestor_path
        pub uninterp spec fn path(&self) -> Seq<AncestorState<T>>;
        /// location.start_offset
        pub uninterp spec fn start_offset(&self) -> usize;
    }

    /// The two Decoder methods `step` calls on the decoder directly. NOT under contract in this unit
    /// (read_byte is under contract in c20_size_codec); ASSUMED: they do not touch the depth counters,
    /// and the prefix check fails only with BufferUnderflow / UnexpectedPayloadPrefix.
    pub trait DecoderOps {
        fn get_offset(&self) -> usize;
        fn read_and_check_payload_prefix(&mut self, expected_prefix: u8) -> Result<(), DecodeError>;
    }
    impl<'de, X: CustomValueKind> DecoderOps for super::unit::VecDecoder<'de, X> {
        #[verifier::external_body]
        fn get_offset(&self) -> (r: usize) ensures r == self.offset { unimplemented!() }
        #[verifier::external_body]
        fn read_and_check_payload_prefix(&mut self, expected_prefix: u8) -> (r: Result<(), DecodeError>)
            ensures
                final(self).stack_depth == old(self).stack_depth, final(self).max_depth == old(self).max_depth,
                r matches Err(e) ==> e is BufferUnderflow || e is UnexpectedPayloadPrefix,
        { unimplemented!() }
    }

    /// sbor/src/traversal/untyped/traverser.rs :: struct ActionHandler -- the event constructors.
    /// NOT under contract (they build the lifetime-heavy TraversalEvent values); ASSUMED behaviour,
    /// read off their bodies: every one reports `ancestor_path` as the event location, none touches the
    /// decoder's depth counters, complete_with_error(e) yields DecodeError(e) + NextAction::Errored,
    /// complete_container_end(h) yields ContainerEnd(h) + ReadNextChildOrExitContainer.
    pub struct ActionHandler<'t, 'd, 'de, T: CustomTraversal> {
        pub ancestor_path: &'t [AncestorState<T>],
        pub decoder: &'d mut super::unit::VecDecoder<'de, T::CustomValueKind>,
        pub start_offset: usize,
    }
    impl<'t, 'd, 'de, T: CustomTraversal> ActionHandler<'t, 'd, 'de, T> {
        #[verifier::external_body]
        pub fn new_from_current_offset(
            ancestor_path: &'t [AncestorState<T>],
            decoder: &'d mut super::unit::VecDecoder<'de, T::CustomValueKind>,
        ) -> (r: Self)
            ensures r.ancestor_path@ == ancestor_path@, r.start_offset == old(decoder).offset,
                    *r.decoder == *old(decoder), *final(r.decoder) == *final(decoder),
        { unimplemented!() }
        #[verifier::external_body]
        pub fn new_with_fixed_offset(
            ancestor_path: &'t [AncestorState<T>],
            decoder: &'d mut super::unit::VecDecoder<'de, T::CustomValueKind>,
            start_offset: usize,
        ) -> (r: Self)
            ensures r.ancestor_path@ == ancestor_path@, r.start_offset == start_offset,
                    *r.decoder == *old(decoder), *final(r.decoder) == *final(decoder),
        { unimplemented!() }
        #[verifier::external_body]
        pub fn read_value(self, implicit_value_kind: Option<ValueKind<T::CustomValueKind>>)
            -> (r: (LocatedTraversalEvent<'t, 'de, T>, NextAction<T>))
            ensures r.0.origin() == Origin::<T>::Value(implicit_value_kind), r.0.path() == self.ancestor_path@,
                    final(self.decoder).stack_depth == old(self.decoder).stack_depth, final(self.decoder).max_depth == old(self.decoder).max_depth,
        { unimplemented!() }
        #[verifier::external_body]
        pub fn read_byte_array(self, array_length: usize) -> (r: (LocatedTraversalEvent<'t, 'de, T>, NextAction<T>))
            ensures r.0.origin() == Origin::<T>::ByteArray(array_length), r.0.path() == self.ancestor_path@,
                    final(self.decoder).stack_depth == old(self.decoder).stack_depth, final(self.decoder).max_depth == old(self.decoder).max_depth,
        { unimplemented!() }
        #[verifier::external_body]
        pub fn end(self, config: &VecTraverserConfig) -> (r: (LocatedTraversalEvent<'t, 'de, T>, NextAction<T>))
            ensures r.0.origin() == Origin::<T>::End, r.0.path() == self.ancestor_path@,
                    final(self.decoder).stack_depth == old(self.decoder).stack_depth, final(self.decoder).max_depth == old(self.decoder).max_depth,
        { unimplemented!() }
        #[verifier::external_body]
        pub fn complete_container_end(self, container_header: ContainerHeader<T>)
            -> (r: (LocatedTraversalEvent<'t, 'de, T>, NextAction<T>))
            ensures r.0.origin() == Origin::<T>::ContainerEnd(container_header), r.0.path() == self.ancestor_path@,
                    r.0.start_offset() == self.start_offset, r.1 is ReadNextChildOrExitContainer,
                    final(self.decoder).stack_depth == old(self.decoder).stack_depth, final(self.decoder).max_depth == old(self.decoder).max_depth,
        { unimplemented!() }
        #[verifier::external_body]
        pub fn complete_with_error(self, error: DecodeError) -> (r: (LocatedTraversalEvent<'t, 'de, T>, NextAction<T>))
            ensures r.0.origin() == Origin::<T>::Error(error), r.0.path() == self.ancestor_path@,
                    r.0.start_offset() == self.start_offset, r.1 is Errored,
                    final(self.decoder).stack_depth == old(self.decoder).stack_depth, final(self.decoder).max_depth == old(self.decoder).max_depth,
        { unimplemented!() }
    }
}

pub mod unit {
    use vstd::prelude::*;
    use super::rt::*;
    use super::env::*;

    // ------------------------------------------------------------------------------------------
    // ORACLE (from the property): nesting depth is counted from 1 at the root value; a value at
    // depth d is acceptable iff d <= max_depth.  All three components must refuse a value at depth
    // current+1 exactly when current + 1 > max_depth.
    // ------------------------------------------------------------------------------------------
    pub open spec fn refuses_child(current_depth: int, max_depth: int) -> bool { current_depth + 1 > max_depth }

    // ---- R12: the two codec traits, only the methods needed -------------------------------------
    // Verus rejects the mutual bound cycle of the real traits (Decoder::f<T: Decode<X, Self>> and
    // Decode<X, D: Decoder<X>>), so the ghost depth observer lives in a supertrait and the
    // re-declared Decode / Encode bound their coder parameter by it instead of by Decoder / Encoder.
    pub trait HasDepths {
        /// ghost: (stack_depth, max_depth)
        spec fn depths(&self) -> (int, int);
    }
    pub trait Decoder<X: CustomValueKind>: Sized + HasDepths {
        fn decode_deeper_body_with_value_kind<T: Decode<X, Self>>(&mut self, value_kind: ValueKind<X>) -> (ret: Result<T, DecodeError>)
            requires old(self).depths().0 < usize::MAX
            ensures
                // refused at the boundary, before the body is looked at
                refuses_child(old(self).depths().0, old(self).depths().1) ==> ret == Err::<T, DecodeError>(DecodeError::MaxDepthExceeded(old(self).depths().1 as usize)),
                // depth returns to its entry value
                ret is Ok ==> final(self).depths() == old(self).depths(),
                final(self).depths().1 == old(self).depths().1;
        fn get_depth_limit(&self) -> (ret: usize) ensures ret == self.depths().1;
        fn get_stack_depth(&self) -> (ret: usize) ensures ret == self.depths().0;
    }
    /// sbor/src/decode.rs :: trait Decode -- ASSUMED (induction hypothesis for the children): a body
    /// decoder that succeeds leaves the depth where it found it, and nobody changes max_depth.
    pub trait Decode<X: CustomValueKind, D: HasDepths>: Sized {
        fn decode_body_with_value_kind(decoder: &mut D, value_kind: ValueKind<X>) -> (ret: Result<Self, DecodeError>)
            ensures
                ret is Ok ==> final(decoder).depths() == old(decoder).depths(),
                final(decoder).depths().1 == old(decoder).depths().1;
    }

    pub trait Encoder<X: CustomValueKind>: Sized + HasDepths {
        fn encode_deeper_body<T: Encode<X, Self> + ?Sized>(&mut self, value: &T) -> (ret: Result<(), EncodeError>)
            requires old(self).depths().0 < usize::MAX
            ensures
                refuses_child(old(self).depths().0, old(self).depths().1) ==> ret == Err::<(), EncodeError>(EncodeError::MaxDepthExceeded(old(self).depths().1 as usize)),
                ret is Ok ==> final(self).depths() == old(self).depths(),
                final(self).depths().1 == old(self).depths().1;
    }
    /// sbor/src/encode.rs :: trait Encode -- ASSUMED as for Decode
    pub trait Encode<X: CustomValueKind, E: HasDepths> {
        fn encode_body(&self, encoder: &mut E) -> (ret: Result<(), EncodeError>)
            ensures
                ret is Ok ==> final(encoder).depths() == old(encoder).depths(),
                final(encoder).depths().1 == old(encoder).depths().1;
    }

    // ---- decoder ---------------------------------------------------------------------------------
    /*@item sbor/src/decoder.rs :: struct VecDecoder
    @*/

    impl<'de, X: CustomValueKind> VecDecoder<'de, X> {
        /*@fn sbor/src/decoder.rs :: impl<'de, X: CustomValueKind> VecDecoder<'de, X> :: fn new
        @sig
            ensures ret.stack_depth == 0, ret.max_depth == max_depth, ret.input@ == input@, ret.offset == 0
        @*/

        /*@fn sbor/src/decoder.rs :: impl<'de, X: CustomValueKind> VecDecoder<'de, X> :: fn track_stack_depth_increase
        @sig
            requires old(self).stack_depth < usize::MAX
            ensures
                ret is Err <==> refuses_child(old(self).stack_depth as int, old(self).max_depth as int),
                ret matches Err(e) ==> e == DecodeError::MaxDepthExceeded(old(self).max_depth),
                // the counter is bumped in BOTH outcomes (an Err leaves the decoder one level too deep)
                final(self).stack_depth == old(self).stack_depth + 1,
                final(self).max_depth == old(self).max_depth,
                final(self).input == old(self).input, final(self).offset == old(self).offset
        @*/

        /*@fn sbor/src/decoder.rs :: impl<'de, X: CustomValueKind> VecDecoder<'de, X> :: fn track_stack_depth_decrease
        @sig
            requires old(self).stack_depth > 0
            ensures
                ret is Ok,
                final(self).stack_depth == old(self).stack_depth - 1,
                final(self).max_depth == old(self).max_depth,
                final(self).input == old(self).input, final(self).offset == old(self).offset
        @*/
    }

    impl<'de, X: CustomValueKind> HasDepths for VecDecoder<'de, X> {
        open spec fn depths(&self) -> (int, int) { (self.stack_depth as int, self.max_depth as int) }
    }
    impl<'de, X: CustomValueKind> Decoder<X> for VecDecoder<'de, X> {
        /*@fn sbor/src/decoder.rs :: impl<'de, X: CustomValueKind> Decoder<X> for VecDecoder<'de, X> :: fn decode_deeper_body_with_value_kind
        @*/
        /*@fn sbor/src/decoder.rs :: impl<'de, X: CustomValueKind> Decoder<X> for VecDecoder<'de, X> :: fn get_depth_limit
        @*/
        /*@fn sbor/src/decoder.rs :: impl<'de, X: CustomValueKind> Decoder<X> for VecDecoder<'de, X> :: fn get_stack_depth
        @*/
    }

    // ---- encoder ---------------------------------------------------------------------------------
    /*@item sbor/src/encoder.rs :: struct VecEncoder
    @*/

    impl<'a, X: CustomValueKind> VecEncoder<'a, X> {
        /*@fn sbor/src/encoder.rs :: impl<'a, X: CustomValueKind> VecEncoder<'a, X> :: fn new
        @sig
            ensures ret.stack_depth == 0, ret.max_depth == max_depth
        @*/

        /*@fn sbor/src/encoder.rs :: impl<'a, X: CustomValueKind> VecEncoder<'a, X> :: fn track_stack_depth_increase
        @sig
            requires old(self).stack_depth < usize::MAX
            ensures
                ret is Err <==> refuses_child(old(self).stack_depth as int, old(self).max_depth as int),
                ret matches Err(e) ==> e == EncodeError::MaxDepthExceeded(old(self).max_depth),
                final(self).stack_depth == old(self).stack_depth + 1,
                final(self).max_depth == old(self).max_depth,
                (*final(self).buf)@ == (*old(self).buf)@
        @*/

        /*@fn sbor/src/encoder.rs :: impl<'a, X: CustomValueKind> VecEncoder<'a, X> :: fn track_stack_depth_decrease
        @sig
            requires old(self).stack_depth > 0
            ensures
                ret is Ok,
                final(self).stack_depth == old(self).stack_depth - 1,
                final(self).max_depth == old(self).max_depth,
                (*final(self).buf)@ == (*old(self).buf)@
        @*/
    }

    impl<'a, X: CustomValueKind> HasDepths for VecEncoder<'a, X> {
        open spec fn depths(&self) -> (int, int) { (self.stack_depth as int, self.max_depth as int) }
    }
    impl<'a, X: CustomValueKind> Encoder<X> for VecEncoder<'a, X> {
        /*@fn sbor/src/encoder.rs :: impl<'a, X: CustomValueKind> Encoder<X> for VecEncoder<'a, X> :: fn encode_deeper_body
        @*/
    }

    // ---- traverser: the container-entry depth guard of VecTraverser::step ------------------------
    // `step` pushes the (non-empty) container on `ancestor_path` and then evaluates this guard; the
    // first child would be read at depth ancestor_path.len() + 1.  Both the condition and the error
    // value are sliced from the real function on every run.
    pub fn traverser_entry_guard<T: CustomTraversal>(ancestor_path: &Vec<AncestorState<T>>, config: &VecTraverserConfig) -> (ret: Option<DecodeError>)
        ensures
            ret is Some <==> refuses_child(ancestor_path.len() as int, config.max_depth as int),
            ret matches Some(e) ==> e == DecodeError::MaxDepthExceeded(config.max_depth),
    {
        if /*@expr sbor/src/traversal/untyped/traverser.rs :: impl<'de, T: CustomTraversal> VecTraverser<'de, T> :: fn step :: <<DecodeError::MaxDepthExceeded>> #1 @*/ {
            Some(/*@expr-after sbor/src/traversal/untyped/traverser.rs :: impl<'de, T: CustomTraversal> VecTraverser<'de, T> :: fn step :: <<.complete_with_error(>> #2 @*/)
        } else {
            None
        }
    }

    // ---- traverser: VecTraverser::step, the whole state-machine step -------------------------------
    /// number of children announced by a container header (oracle: map entries count twice)
    pub open spec fn child_count<T: CustomTraversal>(h: ContainerHeader<T>) -> int {
        match h {
            ContainerHeader::Tuple(x) => x.length as int,
            ContainerHeader::EnumVariant(x) => x.length as int,
            ContainerHeader::Array(x) => x.length as int,
            ContainerHeader::Map(x) => 2 * x.length,
        }
    }
    /// lengths come from read_size, hence are <= 0x0FFF_FFFF (C20): 2 * length cannot overflow
    pub open spec fn header_ok<T: CustomTraversal>(h: ContainerHeader<T>) -> bool { child_count(h) <= usize::MAX }
    /// invariant of the ancestor stack: every entered container is non-empty and its cursor is inside it
    pub open spec fn path_ok<T: CustomTraversal>(p: Seq<AncestorState<T>>) -> bool {
        forall|i: int| 0 <= i < p.len() ==> header_ok(#[trigger] p[i].container_header) && p[i].current_child_index < child_count(p[i].container_header)
    }
    pub open spec fn is_byte_array<T: CustomTraversal>(h: ContainerHeader<T>) -> bool {
        h matches ContainerHeader::Array(a) && a.element_value_kind is U8
    }

    /*@item sbor/src/traversal/untyped/events.rs :: struct TupleHeader
    @derive Nothing
    @*/
    /*@item sbor/src/traversal/untyped/events.rs :: struct EnumVariantHeader
    @derive Nothing
    @*/
    /*@item sbor/src/traversal/untyped/events.rs :: struct ArrayHeader
    @derive Nothing
    @*/
    /*@item sbor/src/traversal/untyped/events.rs :: struct MapHeader
    @derive Nothing
    @*/
    /*@item sbor/src/traversal/untyped/events.rs :: enum ContainerHeader
    @derive Nothing
    @*/

    impl<T: CustomTraversal> ContainerHeader<T> {
        /*@fn sbor/src/traversal/untyped/events.rs :: impl<T: CustomTraversal> ContainerHeader<T> :: fn get_child_count
        @sig
            requires header_ok(*self)
            ensures ret == child_count(*self)
        @*/
    }

    /*@item sbor/src/traversal/untyped/traverser.rs :: struct VecTraverser
    @*/

    impl<'de, T: CustomTraversal> VecTraverser<'de, T> {
        /*@fn sbor/src/traversal/untyped/traverser.rs :: impl<'de, T: CustomTraversal> VecTraverser<'de, T> :: fn step
        @sig
            requires
                // documented caller obligation: no step after an Error / End event
                !(action is Errored), !(action is Ended), !(action is InProgressPlaceholder),
                path_ok(old(ancestor_path)@),
                action matches NextAction::ReadContainerContentStart { container_header, .. } ==> header_ok(container_header),
            ensures
                path_ok(final(ancestor_path)@),
                // the event is always located at the final ancestor stack
                ret.0.path() == final(ancestor_path)@,
                // root actions: the stack is untouched and NO depth test is made, whatever max_depth is
                (action is ReadPrefix || action is ReadRootValue || action is ReadRootValueBody) ==>
                    final(ancestor_path)@ == old(ancestor_path)@
                    && (ret.0.origin() is Value || (ret.0.origin() matches Origin::Error(e) && !(e is MaxDepthExceeded))),
                // container entry
                action matches NextAction::ReadContainerContentStart { container_header, container_start_offset } ==> (
                    if child_count(container_header) == 0 {
                        // empty containers are closed at once and never pushed: they cost no depth
                        final(ancestor_path)@ == old(ancestor_path)@
                        && ret.0.origin() == Origin::<T>::ContainerEnd(container_header)
                    } else {
                        // the container is pushed FIRST (also when the child is then refused) ...
                        final(ancestor_path)@.len() == old(ancestor_path)@.len() + 1
                        && final(ancestor_path)@.drop_last() == old(ancestor_path)@
                        && final(ancestor_path)@.last().container_header == container_header
                        && final(ancestor_path)@.last().container_start_offset == container_start_offset
                        // ... and its first child, at depth len + 1, is refused exactly at the decoder's boundary
                        && (ret.0.origin() is Error <==> refuses_child(final(ancestor_path)@.len() as int, config.max_depth as int))
                        && (ret.0.origin() matches Origin::Error(e) ==> e == DecodeError::MaxDepthExceeded(config.max_depth) && ret.1 is Errored)
                        // accepted: byte arrays are read as one batch (cursor on the last element), anything else child by child
                        && (!(ret.0.origin() is Error) ==> (
                            if is_byte_array(container_header) {
                                ret.0.origin() == Origin::<T>::ByteArray(child_count(container_header) as usize)
                                && final(ancestor_path)@.last().current_child_index == child_count(container_header) - 1
                            } else {
                                ret.0.origin() is Value && final(ancestor_path)@.last().current_child_index == 0
                            }))
                    }),
                // next sibling or container exit: the stack shrinks by exactly the completed container
                action is ReadNextChildOrExitContainer ==> (
                    if old(ancestor_path)@.len() == 0 {
                        final(ancestor_path)@ == old(ancestor_path)@ && ret.0.origin() is End
                    } else if old(ancestor_path)@.last().current_child_index + 1 >= child_count(old(ancestor_path)@.last().container_header) {
                        final(ancestor_path)@ == old(ancestor_path)@.drop_last()
                        && ret.0.origin() == Origin::<T>::ContainerEnd(old(ancestor_path)@.last().container_header)
                    } else {
                        final(ancestor_path)@.len() == old(ancestor_path)@.len()
                        && final(ancestor_path)@.drop_last() == old(ancestor_path)@.drop_last()
                        && final(ancestor_path)@.last().container_header == old(ancestor_path)@.last().container_header
                        && final(ancestor_path)@.last().current_child_index == old(ancestor_path)@.last().current_child_index + 1
                        && ret.0.origin() is Value
                    }),
                // the traverser never uses the decoder's own depth counters
                final(decoder).stack_depth == old(decoder).stack_depth, final(decoder).max_depth == old(decoder).max_depth
        @*/
    }

    // ---- C21 agreement: one boundary for all three -------------------------------------------------
    /// A traverser that has entered `ancestor_path.len()` containers and a decoder at the same
    /// nesting depth with the same limit take the same decision about one more level, and report
    /// the same error value.
    pub fn traverser_agrees_with_decoder<'de, T: CustomTraversal>(
        decoder: &mut VecDecoder<'de, T::CustomValueKind>, ancestor_path: &Vec<AncestorState<T>>, config: &VecTraverserConfig,
    ) -> (r: (Option<DecodeError>, Result<(), DecodeError>))
        requires
            old(decoder).stack_depth == ancestor_path.len(), old(decoder).max_depth == config.max_depth,
            old(decoder).stack_depth < usize::MAX,
        ensures
            r.0 is Some <==> r.1 is Err,
            r.0 matches Some(e) ==> r.1 == Err::<(), DecodeError>(e),
    {
        let t = traverser_entry_guard(ancestor_path, config);
        let d = decoder.track_stack_depth_increase();
        (t, d)
    }

    /// Encoder and decoder at the same depth with the same limit refuse / accept together, and
    /// end at the same depth.
    pub fn encoder_agrees_with_decoder<'a, 'de, X: CustomValueKind>(
        encoder: &mut VecEncoder<'a, X>, decoder: &mut VecDecoder<'de, X>,
    ) -> (r: (Result<(), EncodeError>, Result<(), DecodeError>))
        requires
            old(encoder).stack_depth == old(decoder).stack_depth, old(encoder).max_depth == old(decoder).max_depth,
            old(decoder).stack_depth < usize::MAX,
        ensures
            r.0 is Err <==> r.1 is Err,
            r.0 matches Err(e) ==> e == EncodeError::MaxDepthExceeded(old(decoder).max_depth) && r.1 == Err::<(), DecodeError>(DecodeError::MaxDepthExceeded(old(decoder).max_depth)),
            final(encoder).stack_depth == final(decoder).stack_depth,
    {
        let e = encoder.track_stack_depth_increase();
        let d = decoder.track_stack_depth_increase();
        (e, d)
    }

    /// The degenerate limit: the decoder (and the encoder) apply the test to the ROOT value as well
    /// (depth 0 -> 1), so with max_depth == 0 they refuse every payload; for every larger limit the
    /// root is accepted.  The traverser evaluates its guard only after pushing a container
    /// (ancestor_path.len() >= 1), i.e. never for the root: with max_depth == 0 it still accepts a
    /// payload whose root is a leaf or an empty container.  This is the only configuration in which
    /// the two disagree about depth.
    pub proof fn lemma_root_refused_only_for_zero_limit(max_depth: int)
        requires max_depth >= 0
        ensures refuses_child(0, max_depth) <==> max_depth == 0
    {}

    // (a KNOWN-FINDING obligation about RawValue's sub-traverser depth budget is kept OUT of this unit:
    //  see known_finding.frag.rs and finding_replay/ in this directory)

    // ---- KNOWN FINDING: the depth budget handed to the sub-traverser by RawValue decoding ----------
    /// `RawValue::decode_body_with_value_kind` (sbor/src/encoded_wrappers.rs) measures the raw value with
    /// `calculate_value_tree_body_byte_length(.., decoder.get_stack_depth(), decoder.get_depth_limit())`,
    /// which runs a VecTraverser with `max_depth: depth_limit - current_depth`.  Both argument expressions
    /// and the subtraction are sliced from the real code.  A decode BODY runs after
    /// decode_deeper_body_with_value_kind has already counted the value itself, so the raw value (the
    /// sub-traverser's root, relative depth 1) sits at absolute depth `stack_depth`; a child entered with
    /// `len` containers on the sub-traverser's stack sits at absolute depth stack_depth + len.  Agreement
    /// (C21) demands that the sub-traverser's guard refuses it exactly when the decoder would refuse to go
    /// from depth stack_depth + len - 1 to stack_depth + len.  It does NOT: the budget is one too small
    /// (len = 1, stack_depth + 1 == max_depth).  Replayed on the real crate: finding_replay/OUTPUT.txt
    /// (payload [91, 33, 1, 33, 0], depth limit 2: BasicValue decodes, the encoder accepts, BasicRawValue
    /// is rejected with MaxDepthExceeded(1)).  This obligation is EXPECTED TO FAIL.
    pub fn raw_value_subtraverser_budget_KNOWN_FINDING<'de, X: CustomValueKind>(decoder: &VecDecoder<'de, X>) -> (max_depth: usize)
        requires 1 <= decoder.stack_depth <= decoder.max_depth
        ensures
            forall|len: int| len >= 1 ==>
                (#[trigger] refuses_child(len, max_depth as int) <==> refuses_child(decoder.stack_depth + len - 1, decoder.max_depth as int))
    {
        let current_depth = /*@expr-after sbor/src/encoded_wrappers.rs :: impl<Ext: CustomExtension, D: Decoder<Ext::CustomValueKind>> Decode<Ext::CustomValueKind, D> for RawValue<'_, Ext> :: fn decode_body_with_value_kind :: <<value_kind,>> #1 @*/;
        let depth_limit = /*@expr-after sbor/src/encoded_wrappers.rs :: impl<Ext: CustomExtension, D: Decoder<Ext::CustomValueKind>> Decode<Ext::CustomValueKind, D> for RawValue<'_, Ext> :: fn decode_body_with_value_kind :: <<decoder.get_stack_depth(),>> #1 @*/;
        /*@expr-after sbor/src/traversal/untyped/traverser.rs :: fn calculate_value_tree_body_byte_length :: <<max_depth:>> #1 @*/
    }
    /// What the budget WOULD have to be for agreement (same slices, `+ 1`): shows the oracle is satisfiable
    /// and pins the defect to the off-by-one.
    pub proof fn lemma_agreeing_budget(stack_depth: int, max_depth: int)
        requires 1 <= stack_depth <= max_depth
        ensures forall|len: int| len >= 1 ==>
            (#[trigger] refuses_child(len, max_depth - stack_depth + 1) <==> refuses_child(stack_depth + len - 1, max_depth))
    {}

}
} // verus!
fn main() {}
