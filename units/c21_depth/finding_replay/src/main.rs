use sbor::*;
fn main() {
    // Tuple(1){ Tuple(0){} } : value tree of depth 2
    let v = BasicValue::Tuple { fields: vec![BasicValue::Tuple { fields: vec![] }] };
    for limit in 1..=3usize {
        let enc = basic_encode_with_depth_limit(&v, limit);
        println!("limit {limit}: encode -> {:?}", enc.as_ref().map(|b| b.clone()));
    }
    let payload = basic_encode(&v).unwrap();
    println!("payload {:?}", payload);
    for limit in 1..=3usize {
        let as_value = basic_decode_with_depth_limit::<BasicValue>(&payload, limit);
        let as_raw = basic_decode_with_depth_limit::<BasicRawValue>(&payload, limit);
        println!("limit {limit}: Value -> {:?} | RawValue -> {:?}", as_value.map(|_| "ok"), as_raw.map(|_| "ok"));
    }
    // leaf nested: Tuple(1){ u8 } depth 2
    let v2 = BasicValue::Tuple { fields: vec![BasicValue::U8 { value: 7 }] };
    let p2 = basic_encode(&v2).unwrap();
    for limit in 1..=3usize {
        let as_value = basic_decode_with_depth_limit::<BasicValue>(&p2, limit);
        let as_raw = basic_decode_with_depth_limit::<BasicRawValue>(&p2, limit);
        println!("v2 limit {limit}: Value -> {:?} | RawValue -> {:?}", as_value.map(|_| "ok"), as_raw.map(|_| "ok"));
    }
    // raw value nested in a tuple: (RawValue,) where raw = Tuple(1){u8}: total depth 3
    let p3 = basic_encode(&(v2.clone(),)).unwrap();
    for limit in 2..=4usize {
        let as_value = basic_decode_with_depth_limit::<BasicValue>(&p3, limit);
        let as_raw = basic_decode_with_depth_limit::<(BasicRawValue,)>(&p3, limit);
        println!("v3 limit {limit}: Value -> {:?} | (RawValue,) -> {:?}", as_value.map(|_| "ok"), as_raw.map(|_| "ok"));
    }
}
