// Unit c36_id_validator -- property C36 "Static manifest validation matches the bucket/proof lifecycle"
// Real code: radix-transactions/src/validation/id_validator.rs (BasicManifestValidator, every id
// operation + the TransformHandler replace_* methods) and validation/id_allocator.rs (ManifestIdAllocator).
use vstd::prelude::*;
verus! {
/*@include shims/rt.rs @*/
/*@include shims/maps.rs @*/
/*@include shims/collections.rs @*/

pub mod env {
    use vstd::prelude::*;
    // the five id newtypes and the error enum, verbatim from their crates
    /*@item radix-common/src/data/manifest/model/manifest_bucket.rs :: struct ManifestBucket
    @derive Clone, Copy, PartialEq, Eq
    @*/
    /*@item radix-common/src/data/manifest/model/manifest_proof.rs :: struct ManifestProof
    @derive Clone, Copy, PartialEq, Eq
    @*/
    /*@item radix-common/src/data/manifest/model/manifest_address_reservation.rs :: struct ManifestAddressReservation
    @derive Clone, Copy, PartialEq, Eq
    @*/
    /*@item radix-common/src/data/manifest/model/manifest_address.rs :: struct ManifestNamedAddress
    @derive Clone, Copy, PartialEq, Eq
    @*/
    /*@item radix-transactions/src/model/v2/child_subintent_hashes_v2.rs :: struct ManifestNamedIntent
    @derive Clone, Copy, PartialEq, Eq
    @*/
    /*@item radix-transactions/src/errors.rs :: enum ManifestIdValidationError
    @derive PartialEq, Eq
    @*/

    // placeholders produced by the TransformHandler methods (shapes copied from radix-common)
    pub struct NodeId(pub [u8; 30]);
    impl NodeId { pub const LENGTH: usize = 30; }
    pub struct Own(pub NodeId);
    pub struct Reference(pub NodeId);
    pub struct ManifestExpression { pub x: u8 }
    pub struct ManifestBlobRef(pub [u8; 32]);
}

pub mod unit {
    use vstd::prelude::*;
    use super::rt::*;
    use super::maps::*;
    use super::colls::*;
    use super::env::*;

    /*@item radix-transactions/src/validation/id_validator.rs :: enum ProofKind
    @derive PartialEq, Eq
    @*/
    // `#[derive(Clone)]` carries no specification in Verus: this is its expansion, verified (not assumed).
    impl Clone for ProofKind {
        fn clone(&self) -> (r: Self) ensures r == *self {
            match self {
                ProofKind::BucketProof(b) => ProofKind::BucketProof(*b),
                ProofKind::AuthZoneProof => ProofKind::AuthZoneProof,
            }
        }
    }

    /*@item radix-transactions/src/validation/id_allocator.rs :: struct ManifestIdAllocator
    @derive PartialEq, Eq
    @*/
    // expansion of `#[derive(Default)]` (derives carry no specification), verified
    impl Default for ManifestIdAllocator {
        fn default() -> (r: Self)
            ensures r.next_bucket_id == 0, r.next_proof_id == 0, r.next_address_reservation_id == 0,
                    r.next_address_id == 0, r.next_intent_id == 0,
        {
            ManifestIdAllocator {
                next_bucket_id: Default::default(),
                next_proof_id: Default::default(),
                next_address_reservation_id: Default::default(),
                next_address_id: Default::default(),
                next_intent_id: Default::default(),
            }
        }
    }

    /*@item radix-transactions/src/validation/id_validator.rs :: struct BasicManifestValidator
    @derive
    @*/
    // expansion of `#[derive(Default)]`, verified
    impl Default for BasicManifestValidator {
        fn default() -> (r: Self)
            ensures r.is_initial()
        {
            BasicManifestValidator {
                id_allocator: Default::default(),
                bucket_ids: Default::default(),
                proof_ids: Default::default(),
                address_reservation_ids: Default::default(),
                address_ids: Default::default(),
                intent_ids: Default::default(),
            }
        }
    }

    // ------------------------------------------------------------------------------------------
    // Oracle (from the property statement): the lifecycle automaton. Its state is
    //   live buckets, live proofs with their kind, live reservations, declared named addresses
    //   and intents; a bucket is LOCKED while some live proof was created from it.
    // An id can be used only while it is live, a bucket can be consumed only while unlocked,
    // consuming removes exactly that id, and a consumed id never becomes live again.
    // ------------------------------------------------------------------------------------------
    pub type Proofs = Map<ManifestProof, ProofKind>;

    /// the live proofs that were created from bucket `b`
    pub open spec fn proofs_of(m: Proofs, b: ManifestBucket) -> Set<ManifestProof> {
        m.dom().filter(|p: ManifestProof| m[p] == ProofKind::BucketProof(b))
    }
    /// ghost lock state of a bucket: some live proof refers to it
    pub open spec fn locked(m: Proofs, b: ManifestBucket) -> bool {
        exists|p: ManifestProof| m.contains_key(p) && m[p] == ProofKind::BucketProof(b)
    }
    /// effect of creating one more proof of kind `k` on the lock counters
    pub open spec fn counts_after_new_proof(c: Map<ManifestBucket, usize>, k: ProofKind) -> Map<ManifestBucket, usize> {
        match k {
            ProofKind::BucketProof(b) => c.insert(b, (c[b] + 1) as usize),
            ProofKind::AuthZoneProof => c,
        }
    }
    /// effect of dropping one proof of kind `k` on the lock counters
    pub open spec fn counts_after_drop_proof(c: Map<ManifestBucket, usize>, k: ProofKind) -> Map<ManifestBucket, usize> {
        match k {
            ProofKind::BucketProof(b) => c.insert(b, (c[b] - 1) as usize),
            ProofKind::AuthZoneProof => c,
        }
    }

    impl BasicManifestValidator {
        /// representation invariant
        pub open spec fn wf(&self) -> bool {
            // every live id was handed out by the allocator (so the next ids are fresh)
            &&& forall|b: ManifestBucket| self.bucket_ids@.contains_key(b) ==> b.0 < self.id_allocator.next_bucket_id
            &&& forall|p: ManifestProof| self.proof_ids@.contains_key(p) ==> p.0 < self.id_allocator.next_proof_id
            &&& forall|r: ManifestAddressReservation| self.address_reservation_ids@.contains(r) ==> r.0 < self.id_allocator.next_address_reservation_id
            &&& forall|a: ManifestNamedAddress| self.address_ids@.contains(a) ==> a.0 < self.id_allocator.next_address_id
            &&& forall|i: ManifestNamedIntent| self.intent_ids@.contains(i) ==> i.0 < self.id_allocator.next_intent_id
            // lock counter of a live bucket == number of live proofs created from it
            &&& forall|b: ManifestBucket| self.bucket_ids@.contains_key(b) ==> self.bucket_ids@[b] == #[trigger] proofs_of(self.proof_ids@, b).len()
            // a live bucket proof refers to a live bucket
            &&& forall|p: ManifestProof| self.proof_ids@.contains_key(p) ==>
                    (#[trigger] self.proof_ids@[p] matches ProofKind::BucketProof(b) ==> self.bucket_ids@.contains_key(b))
        }
        pub open spec fn is_initial(&self) -> bool {
            &&& self.id_allocator.next_bucket_id == 0 && self.id_allocator.next_proof_id == 0
            &&& self.id_allocator.next_address_reservation_id == 0 && self.id_allocator.next_address_id == 0
            &&& self.id_allocator.next_intent_id == 0
            &&& self.bucket_ids@ == Map::<ManifestBucket, usize>::empty()
            &&& self.proof_ids@ == Map::<ManifestProof, ProofKind>::empty()
            &&& self.address_reservation_ids@ == Set::<ManifestAddressReservation>::empty()
            &&& self.address_ids@ == Set::<ManifestNamedAddress>::empty()
            &&& self.intent_ids@ == Set::<ManifestNamedIntent>::empty()
        }
        /// "nothing is consumed twice": between state `self` and a later state `f` the allocator only
        /// moves forward and every id that was already issued and is no longer live stays dead.
        pub open spec fn no_resurrection(&self, f: &Self) -> bool {
            &&& self.id_allocator.next_bucket_id <= f.id_allocator.next_bucket_id
            &&& self.id_allocator.next_proof_id <= f.id_allocator.next_proof_id
            &&& self.id_allocator.next_address_reservation_id <= f.id_allocator.next_address_reservation_id
            &&& self.id_allocator.next_address_id <= f.id_allocator.next_address_id
            &&& self.id_allocator.next_intent_id <= f.id_allocator.next_intent_id
            &&& forall|b: ManifestBucket| b.0 < self.id_allocator.next_bucket_id && !self.bucket_ids@.contains_key(b) ==> !f.bucket_ids@.contains_key(b)
            &&& forall|p: ManifestProof| p.0 < self.id_allocator.next_proof_id && !self.proof_ids@.contains_key(p) ==> !f.proof_ids@.contains_key(p)
            &&& forall|r: ManifestAddressReservation| r.0 < self.id_allocator.next_address_reservation_id && !self.address_reservation_ids@.contains(r)
                    ==> !f.address_reservation_ids@.contains(r)
        }
        /// the parts of the state an operation on buckets/proofs does not touch
        pub open spec fn same_addresses(&self, f: &Self) -> bool {
            &&& self.address_reservation_ids == f.address_reservation_ids
            &&& self.address_ids == f.address_ids
            &&& self.intent_ids == f.intent_ids
        }
    }

    // ---- lemmas ------------------------------------------------------------------------------
    pub proof fn lemma_insert_proof(m: Proofs, p: ManifestProof, k: ProofKind)
        requires !m.contains_key(p)
        ensures
            forall|b: ManifestBucket| #[trigger] proofs_of(m.insert(p, k), b).len()
                == proofs_of(m, b).len() + (if k == ProofKind::BucketProof(b) { 1nat } else { 0nat }),
    {
        let m2 = m.insert(p, k);
        assert forall|b: ManifestBucket| #[trigger] proofs_of(m2, b).len()
                == proofs_of(m, b).len() + (if k == ProofKind::BucketProof(b) { 1nat } else { 0nat }) by {
            if k == ProofKind::BucketProof(b) {
                assert(proofs_of(m2, b) =~= proofs_of(m, b).insert(p));
            } else {
                assert(proofs_of(m2, b) =~= proofs_of(m, b));
            }
        }
    }

    pub proof fn lemma_remove_proof(m: Proofs, p: ManifestProof)
        requires m.contains_key(p)
        ensures
            forall|b: ManifestBucket| #[trigger] proofs_of(m.remove(p), b).len()
                == proofs_of(m, b).len() - (if m[p] == ProofKind::BucketProof(b) { 1nat } else { 0nat }),
            forall|b: ManifestBucket| m[p] == ProofKind::BucketProof(b) ==> #[trigger] proofs_of(m, b).len() >= 1,
    {
        let m2 = m.remove(p);
        assert forall|b: ManifestBucket| #[trigger] proofs_of(m2, b).len()
                == proofs_of(m, b).len() - (if m[p] == ProofKind::BucketProof(b) { 1nat } else { 0nat }) by {
            if m[p] == ProofKind::BucketProof(b) {
                assert(proofs_of(m, b).contains(p));
                assert(proofs_of(m2, b) =~= proofs_of(m, b).remove(p));
            } else {
                assert(proofs_of(m2, b) =~= proofs_of(m, b));
            }
        }
        assert forall|b: ManifestBucket| m[p] == ProofKind::BucketProof(b) implies #[trigger] proofs_of(m, b).len() >= 1 by {
            assert(proofs_of(m, b).contains(p));
        }
    }

    /// the ghost lock state coincides with "counter > 0"
    pub proof fn lemma_locked_iff_count(m: Proofs, b: ManifestBucket)
        ensures locked(m, b) <==> proofs_of(m, b).len() > 0
    {
        if locked(m, b) {
            let p = choose|p: ManifestProof| m.contains_key(p) && m[p] == ProofKind::BucketProof(b);
            assert(proofs_of(m, b).contains(p));
            assert(proofs_of(m, b).remove(p).insert(p) =~= proofs_of(m, b));
        }
        if proofs_of(m, b).len() > 0 {
            let p = proofs_of(m, b).choose();
            assert(proofs_of(m, b).contains(p));
        }
    }

    /// at most `n` distinct proof ids lie below `n` (so a lock counter cannot overflow before the
    /// proof-id allocator does)
    pub proof fn lemma_bounded_card(s: Set<ManifestProof>, n: nat)
        requires forall|p: ManifestProof| s.contains(p) ==> p.0 < n
        ensures s.len() <= n
        decreases n
    {
        if n == 0 {
            assert(s =~= Set::<ManifestProof>::empty());
        } else {
            let x = ManifestProof((n - 1) as u32);
            let s2 = s.remove(x);
            assert forall|p: ManifestProof| s2.contains(p) implies p.0 < n - 1 by {
                if p.0 == n - 1 { assert(p == x); }
            }
            lemma_bounded_card(s2, (n - 1) as nat);
            if s.contains(x) {
                assert(s2.insert(x) =~= s);
            } else {
                assert(s2 =~= s);
            }
        }
    }

    /// C36 "nothing is consumed twice", over arbitrary operation sequences: `no_resurrection`
    /// composes, so an id that was consumed stays dead through any later sequence of operations
    /// (each operation below establishes `no_resurrection(old, final)` and keeps `wf`), hence
    /// every later use of it is rejected (`Ok <==> live`).
    pub proof fn lemma_no_resurrection_trans(a: &BasicManifestValidator, b: &BasicManifestValidator, c: &BasicManifestValidator)
        requires a.no_resurrection(b), b.no_resurrection(c)
        ensures a.no_resurrection(c)
    {
    }

    impl ManifestIdAllocator {
/// `f` is `self` with the five counters advanced by the given amounts
        pub open spec fn bumped(&self, f: &Self, bucket: int, proof: int, reservation: int, address: int, intent: int) -> bool {
            &&& f.next_bucket_id == self.next_bucket_id + bucket
            &&& f.next_proof_id == self.next_proof_id + proof
            &&& f.next_address_reservation_id == self.next_address_reservation_id + reservation
            &&& f.next_address_id == self.next_address_id + address
            &&& f.next_intent_id == self.next_intent_id + intent
        }

        /*@fn radix-transactions/src/validation/id_allocator.rs :: impl ManifestIdAllocator :: fn new
        @sig
            ensures ret.next_bucket_id == 0, ret.next_proof_id == 0, ret.next_address_reservation_id == 0,
                    ret.next_address_id == 0, ret.next_intent_id == 0,
        @*/

        /*@fn radix-transactions/src/validation/id_allocator.rs :: impl ManifestIdAllocator :: fn new_bucket_id
        @sig
            requires old(self).next_bucket_id < u32::MAX
            ensures ret == ManifestBucket(old(self).next_bucket_id),
                    final(self).next_bucket_id == old(self).next_bucket_id + 1,
                    final(self).next_proof_id == old(self).next_proof_id,
                    final(self).next_address_reservation_id == old(self).next_address_reservation_id,
                    final(self).next_address_id == old(self).next_address_id,
                    final(self).next_intent_id == old(self).next_intent_id,
        @*/

        /*@fn radix-transactions/src/validation/id_allocator.rs :: impl ManifestIdAllocator :: fn new_proof_id
        @sig
            requires old(self).next_proof_id < u32::MAX
            ensures ret == ManifestProof(old(self).next_proof_id),
                    final(self).next_proof_id == old(self).next_proof_id + 1,
                    final(self).next_bucket_id == old(self).next_bucket_id,
                    final(self).next_address_reservation_id == old(self).next_address_reservation_id,
                    final(self).next_address_id == old(self).next_address_id,
                    final(self).next_intent_id == old(self).next_intent_id,
        @*/

        /*@fn radix-transactions/src/validation/id_allocator.rs :: impl ManifestIdAllocator :: fn new_address_reservation_id
        @sig
            requires old(self).next_address_reservation_id < u32::MAX
            ensures ret == ManifestAddressReservation(old(self).next_address_reservation_id),
                    final(self).next_address_reservation_id == old(self).next_address_reservation_id + 1,
                    final(self).next_bucket_id == old(self).next_bucket_id,
                    final(self).next_proof_id == old(self).next_proof_id,
                    final(self).next_address_id == old(self).next_address_id,
                    final(self).next_intent_id == old(self).next_intent_id,
        @*/

        /*@fn radix-transactions/src/validation/id_allocator.rs :: impl ManifestIdAllocator :: fn new_address_id
        @sig
            requires old(self).next_address_id < u32::MAX
            ensures ret == ManifestNamedAddress(old(self).next_address_id),
                    final(self).next_address_id == old(self).next_address_id + 1,
                    final(self).next_bucket_id == old(self).next_bucket_id,
                    final(self).next_proof_id == old(self).next_proof_id,
                    final(self).next_address_reservation_id == old(self).next_address_reservation_id,
                    final(self).next_intent_id == old(self).next_intent_id,
        @*/

        /*@fn radix-transactions/src/validation/id_allocator.rs :: impl ManifestIdAllocator :: fn new_named_intent_id
        @sig
            requires old(self).next_intent_id < u32::MAX
            ensures ret == ManifestNamedIntent(old(self).next_intent_id),
                    final(self).next_intent_id == old(self).next_intent_id + 1,
                    final(self).next_bucket_id == old(self).next_bucket_id,
                    final(self).next_proof_id == old(self).next_proof_id,
                    final(self).next_address_reservation_id == old(self).next_address_reservation_id,
                    final(self).next_address_id == old(self).next_address_id,
        @*/
    }

    impl BasicManifestValidator {
        /*@fn radix-transactions/src/validation/id_validator.rs :: impl BasicManifestValidator :: fn new
        @sig
            ensures ret.is_initial(), ret.wf(),
        @*/

        /*@fn radix-transactions/src/validation/id_validator.rs :: impl BasicManifestValidator :: fn new_bucket
        @sig
            requires old(self).wf(), old(self).id_allocator.next_bucket_id < u32::MAX,
            ensures
                final(self).wf(),
                // a FRESH id: never issued before, hence not live and not a consumed one
                ret == ManifestBucket(old(self).id_allocator.next_bucket_id),
                !old(self).bucket_ids@.contains_key(ret),
                // exactly that id becomes live, unlocked
                final(self).bucket_ids@ == old(self).bucket_ids@.insert(ret, 0),
                !locked(final(self).proof_ids@, ret),
                old(self).id_allocator.bumped(&final(self).id_allocator, 1, 0, 0, 0, 0),
                final(self).proof_ids == old(self).proof_ids,
                old(self).same_addresses(final(self)),
                old(self).no_resurrection(final(self)),
        @after <<self.bucket_ids.insert(>> #1
            proof {
                assert(proofs_of(self.proof_ids@, bucket_id) =~= Set::<ManifestProof>::empty());
            }
        @*/

        /*@fn radix-transactions/src/validation/id_validator.rs :: impl BasicManifestValidator :: fn drop_bucket
        @sig
            requires old(self).wf(),
            ensures
                final(self).wf(),
                // consumed exactly when live and no live proof was created from it
                ret is Ok <==> old(self).bucket_ids@.contains_key(*bucket_id) && !locked(old(self).proof_ids@, *bucket_id),
                ret is Ok ==> final(self).bucket_ids@ == old(self).bucket_ids@.remove(*bucket_id),
                ret is Err ==> final(self).bucket_ids@ == old(self).bucket_ids@,
                !old(self).bucket_ids@.contains_key(*bucket_id) ==> ret == Err::<(), _>(ManifestIdValidationError::BucketNotFound(*bucket_id)),
                old(self).bucket_ids@.contains_key(*bucket_id) && locked(old(self).proof_ids@, *bucket_id)
                    ==> ret == Err::<(), _>(ManifestIdValidationError::BucketLocked(*bucket_id)),
                final(self).proof_ids == old(self).proof_ids,
                final(self).id_allocator == old(self).id_allocator,
                old(self).same_addresses(final(self)),
                old(self).no_resurrection(final(self)),
        @entry
            proof {
                lemma_locked_iff_count(old(self).proof_ids@, *bucket_id);
            }
        @*/

        /*@fn radix-transactions/src/validation/id_validator.rs :: impl BasicManifestValidator :: fn new_proof
        @sig
            requires old(self).wf(), old(self).id_allocator.next_proof_id < u32::MAX,
            ensures
                final(self).wf(),
                // a bucket proof needs a live bucket; an auth-zone proof is always possible
                ret is Ok <==> (kind matches ProofKind::BucketProof(b) ==> old(self).bucket_ids@.contains_key(b)),
                match ret {
                    Ok(p) => p == ManifestProof(old(self).id_allocator.next_proof_id)
                        && !old(self).proof_ids@.contains_key(p)
                        && final(self).proof_ids@ == old(self).proof_ids@.insert(p, kind)
                        && final(self).bucket_ids@ == counts_after_new_proof(old(self).bucket_ids@, kind)
                        && (kind matches ProofKind::BucketProof(b) ==> locked(final(self).proof_ids@, b))
                        && old(self).id_allocator.bumped(&final(self).id_allocator, 0, 1, 0, 0, 0),
                    Err(e) => final(self).proof_ids@ == old(self).proof_ids@
                        && final(self).bucket_ids@ == old(self).bucket_ids@
                        && final(self).id_allocator == old(self).id_allocator
                        && (kind matches ProofKind::BucketProof(b) && e == ManifestIdValidationError::BucketNotFound(b)),
                },
                final(self).bucket_ids@.dom() == old(self).bucket_ids@.dom(),
                old(self).same_addresses(final(self)),
                old(self).no_resurrection(final(self)),
        @entry
            proof {
                if let ProofKind::BucketProof(b) = kind {
                    assert forall|p: ManifestProof| proofs_of(old(self).proof_ids@, b).contains(p) implies p.0 < old(self).id_allocator.next_proof_id as nat by {}
                    lemma_bounded_card(proofs_of(old(self).proof_ids@, b), old(self).id_allocator.next_proof_id as nat);
                }
                lemma_insert_proof(old(self).proof_ids@, ManifestProof(old(self).id_allocator.next_proof_id), kind);
            }
        @after <<self.proof_ids.insert(>> #1
            proof {
                assert(self.bucket_ids@.dom() =~= old(self).bucket_ids@.dom());
                assert(self.proof_ids@.contains_key(proof_id) && self.proof_ids@[proof_id] == kind);
            }
        @*/

        /*@fn radix-transactions/src/validation/id_validator.rs :: impl BasicManifestValidator :: fn clone_proof
        @sig
            requires old(self).wf(), old(self).id_allocator.next_proof_id < u32::MAX,
            ensures
                final(self).wf(),
                ret is Ok <==> old(self).proof_ids@.contains_key(*proof_id),
                match ret {
                    Ok(p) => p == ManifestProof(old(self).id_allocator.next_proof_id)
                        && !old(self).proof_ids@.contains_key(p)
                        && final(self).proof_ids@ == old(self).proof_ids@.insert(p, old(self).proof_ids@[*proof_id])
                        && final(self).bucket_ids@ == counts_after_new_proof(old(self).bucket_ids@, old(self).proof_ids@[*proof_id])
                        && old(self).id_allocator.bumped(&final(self).id_allocator, 0, 1, 0, 0, 0),
                    Err(e) => final(self).proof_ids@ == old(self).proof_ids@
                        && final(self).bucket_ids@ == old(self).bucket_ids@
                        && final(self).id_allocator == old(self).id_allocator
                        && e == ManifestIdValidationError::ProofNotFound(*proof_id),
                },
                final(self).bucket_ids@.dom() == old(self).bucket_ids@.dom(),
                old(self).same_addresses(final(self)),
                old(self).no_resurrection(final(self)),
        @entry
            proof {
                if old(self).proof_ids@.contains_key(*proof_id) {
                    let k0 = old(self).proof_ids@[*proof_id];
                    if let ProofKind::BucketProof(b) = k0 {
                        assert forall|p: ManifestProof| proofs_of(old(self).proof_ids@, b).contains(p) implies p.0 < old(self).id_allocator.next_proof_id as nat by {}
                        lemma_bounded_card(proofs_of(old(self).proof_ids@, b), old(self).id_allocator.next_proof_id as nat);
                    }
                    lemma_insert_proof(old(self).proof_ids@, ManifestProof(old(self).id_allocator.next_proof_id), k0);
                }
            }
        @after <<self.proof_ids.insert(>> #1
            proof {
                assert(self.bucket_ids@.dom() =~= old(self).bucket_ids@.dom());
            }
        @*/

        /*@fn radix-transactions/src/validation/id_validator.rs :: impl BasicManifestValidator :: fn drop_proof
        @sig
            requires old(self).wf(),
            ensures
                final(self).wf(),
                ret is Ok <==> old(self).proof_ids@.contains_key(*proof_id),
                ret is Ok ==> final(self).proof_ids@ == old(self).proof_ids@.remove(*proof_id)
                    && final(self).bucket_ids@ == counts_after_drop_proof(old(self).bucket_ids@, old(self).proof_ids@[*proof_id]),
                ret is Err ==> final(self).proof_ids@ == old(self).proof_ids@ && final(self).bucket_ids@ == old(self).bucket_ids@
                    && ret == Err::<(), _>(ManifestIdValidationError::ProofNotFound(*proof_id)),
                final(self).bucket_ids@.dom() == old(self).bucket_ids@.dom(),
                final(self).id_allocator == old(self).id_allocator,
                old(self).same_addresses(final(self)),
                old(self).no_resurrection(final(self)),
        @entry
            proof {
                if old(self).proof_ids@.contains_key(*proof_id) {
                    lemma_remove_proof(old(self).proof_ids@, *proof_id);
                } else {
                    assert(old(self).proof_ids@.remove(*proof_id) =~= old(self).proof_ids@);
                }
            }
        @before <<self.bucket_ids.get_mut(>> #1
            proof {
                assert(proofs_of(old(self).proof_ids@, bucket_id).len() >= 1);
            }
        @before <<Ok(())>> #1
            proof {
                assert(self.bucket_ids@.dom() =~= old(self).bucket_ids@.dom());
            }
        @*/

        /*@fn radix-transactions/src/validation/id_validator.rs :: impl BasicManifestValidator :: fn drop_all_named_proofs
        @sig
            requires old(self).wf(),
            ensures
                final(self).wf(),
                // every live proof is live, so dropping all of them cannot fail ...
                ret is Ok,
                // ... no proof stays live, every bucket stays live and ends up unlocked
                final(self).proof_ids@ == Map::<ManifestProof, ProofKind>::empty(),
                final(self).bucket_ids@.dom() == old(self).bucket_ids@.dom(),
                forall|b: ManifestBucket| final(self).bucket_ids@.contains_key(b) ==> final(self).bucket_ids@[b] == 0 && !locked(final(self).proof_ids@, b),
                final(self).id_allocator == old(self).id_allocator,
                old(self).same_addresses(final(self)),
                old(self).no_resurrection(final(self)),
        @after <<let proof_ids>> #1
            let ghost ks = proof_ids@;
            proof {
                assert forall|p: ManifestProof| old(self).proof_ids@.contains_key(p) <==> ks.contains(p) by {
                    assert(ks.to_set().contains(p) <==> ks.contains(p));
                }
            }
        @loop 1 iter it
            invariant
                it.seq() == ks,
                ks.no_duplicates(),
                self.wf(),
                forall|p: ManifestProof| self.proof_ids@.contains_key(p) <==> (exists|j: int| it.index@ <= j < ks.len() && ks[j] == p),
                self.bucket_ids@.dom() == old(self).bucket_ids@.dom(),
                self.id_allocator == old(self).id_allocator,
                old(self).same_addresses(self),
                forall|p: ManifestProof| self.proof_ids@.contains_key(p) ==> old(self).proof_ids@.contains_key(p),
        @before <<self.drop_proof(>> #1
            let ghost pre = self.proof_ids@;
            let ghost i = it.index@ as int;
            proof {
                // (the call is the tail expression of the loop body, so the step of the invariant is
                // shown beforehand, over the map `pre.remove(proof_id)` that drop_proof will leave)
                assert(proof_id == ks[i]);
                assert(pre.contains_key(proof_id));
                let post = pre.remove(proof_id);
                assert forall|p: ManifestProof| post.contains_key(p) <==> (exists|j: int| i + 1 <= j < ks.len() && ks[j] == p) by {
                    if post.contains_key(p) {
                        assert(pre.contains_key(p) && p != proof_id);
                        let j = choose|j: int| i <= j < ks.len() && ks[j] == p;
                        assert(i + 1 <= j < ks.len() && ks[j] == p);
                    }
                    if exists|j: int| i + 1 <= j < ks.len() && ks[j] == p {
                        let j = choose|j: int| i + 1 <= j < ks.len() && ks[j] == p;
                        assert(i <= j < ks.len() && ks[j] == p);
                        assert(pre.contains_key(p));
                        assert(p != proof_id);
                    }
                }
            }
        @before <<Ok(())>> #1
            proof {
                assert(self.proof_ids@ =~= Map::<ManifestProof, ProofKind>::empty());
                assert forall|b: ManifestBucket| self.bucket_ids@.contains_key(b) implies self.bucket_ids@[b] == 0 && !locked(self.proof_ids@, b) by {
                    assert(proofs_of(self.proof_ids@, b) =~= Set::<ManifestProof>::empty());
                    assert(proofs_of(self.proof_ids@, b).len() == 0);
                    assert(self.bucket_ids@[b] == 0);
                    assert(!locked(self.proof_ids@, b));
                }
            }
        @*/

        /*@fn radix-transactions/src/validation/id_validator.rs :: impl BasicManifestValidator :: fn new_address_reservation
        @sig
            requires old(self).wf(), old(self).id_allocator.next_address_reservation_id < u32::MAX,
            ensures
                final(self).wf(),
                ret == ManifestAddressReservation(old(self).id_allocator.next_address_reservation_id),
                !old(self).address_reservation_ids@.contains(ret),
                final(self).address_reservation_ids@ == old(self).address_reservation_ids@.insert(ret),
                old(self).id_allocator.bumped(&final(self).id_allocator, 0, 0, 1, 0, 0),
                final(self).bucket_ids == old(self).bucket_ids,
                final(self).proof_ids == old(self).proof_ids,
                final(self).address_ids == old(self).address_ids,
                final(self).intent_ids == old(self).intent_ids,
                old(self).no_resurrection(final(self)),
        @*/

        /*@fn radix-transactions/src/validation/id_validator.rs :: impl BasicManifestValidator :: fn drop_address_reservation
        @sig
            requires old(self).wf(),
            ensures
                final(self).wf(),
                ret is Ok <==> old(self).address_reservation_ids@.contains(*address_reservation_id),
                ret is Ok ==> final(self).address_reservation_ids@ == old(self).address_reservation_ids@.remove(*address_reservation_id),
                ret is Err ==> final(self).address_reservation_ids@ == old(self).address_reservation_ids@
                    && ret == Err::<(), _>(ManifestIdValidationError::AddressReservationNotFound(*address_reservation_id)),
                final(self).bucket_ids == old(self).bucket_ids,
                final(self).proof_ids == old(self).proof_ids,
                final(self).address_ids == old(self).address_ids,
                final(self).intent_ids == old(self).intent_ids,
                final(self).id_allocator == old(self).id_allocator,
                old(self).no_resurrection(final(self)),
        @entry
            proof {
                if !old(self).address_reservation_ids@.contains(*address_reservation_id) {
                    assert(old(self).address_reservation_ids@.remove(*address_reservation_id) =~= old(self).address_reservation_ids@);
                }
            }
        @*/

        /*@fn radix-transactions/src/validation/id_validator.rs :: impl BasicManifestValidator :: fn new_named_address
        @sig
            requires old(self).wf(), old(self).id_allocator.next_address_id < u32::MAX,
            ensures
                final(self).wf(),
                ret == ManifestNamedAddress(old(self).id_allocator.next_address_id),
                !old(self).address_ids@.contains(ret),
                final(self).address_ids@ == old(self).address_ids@.insert(ret),
                old(self).id_allocator.bumped(&final(self).id_allocator, 0, 0, 0, 1, 0),
                final(self).bucket_ids == old(self).bucket_ids,
                final(self).proof_ids == old(self).proof_ids,
                final(self).address_reservation_ids == old(self).address_reservation_ids,
                final(self).intent_ids == old(self).intent_ids,
                old(self).no_resurrection(final(self)),
        @*/

        /*@fn radix-transactions/src/validation/id_validator.rs :: impl BasicManifestValidator :: fn check_bucket
        @sig
            ensures
                *final(self) == *old(self),
                ret is Ok <==> old(self).bucket_ids@.contains_key(*bucket_id),
                ret is Err ==> ret == Err::<(), _>(ManifestIdValidationError::BucketNotFound(*bucket_id)),
        @*/

        /*@fn radix-transactions/src/validation/id_validator.rs :: impl BasicManifestValidator :: fn check_named_address
        @sig
            ensures
                *final(self) == *old(self),
                ret is Ok <==> old(self).address_ids@.contains(*address_id),
                ret is Err ==> ret == Err::<(), _>(ManifestIdValidationError::AddressNotFound(*address_id)),
        @*/

        /*@fn radix-transactions/src/validation/id_validator.rs :: impl BasicManifestValidator :: fn new_intent
        @sig
            requires old(self).wf(), old(self).id_allocator.next_intent_id < u32::MAX,
            ensures
                final(self).wf(),
                ret == ManifestNamedIntent(old(self).id_allocator.next_intent_id),
                !old(self).intent_ids@.contains(ret),
                final(self).intent_ids@ == old(self).intent_ids@.insert(ret),
                old(self).id_allocator.bumped(&final(self).id_allocator, 0, 0, 0, 0, 1),
                final(self).bucket_ids == old(self).bucket_ids,
                final(self).proof_ids == old(self).proof_ids,
                final(self).address_reservation_ids == old(self).address_reservation_ids,
                final(self).address_ids == old(self).address_ids,
                old(self).no_resurrection(final(self)),
        @*/

        // ---- impl TransformHandler<ManifestIdValidationError> for BasicManifestValidator (static dispatch):
        // what `process_call_data` does with every id found in the arguments of a call: buckets, proofs
        // and reservations are CONSUMED, named addresses are only checked.
        /*@fn radix-transactions/src/validation/id_validator.rs :: impl TransformHandler<ManifestIdValidationError> for BasicManifestValidator :: fn replace_bucket
        @sig
            requires old(self).wf(),
            ensures
                final(self).wf(),
                ret is Ok <==> old(self).bucket_ids@.contains_key(b) && !locked(old(self).proof_ids@, b),
                ret is Ok ==> final(self).bucket_ids@ == old(self).bucket_ids@.remove(b),
                ret is Err ==> final(self).bucket_ids@ == old(self).bucket_ids@,
                ret matches Err(e) ==> e == (if old(self).bucket_ids@.contains_key(b) { ManifestIdValidationError::BucketLocked(b) }
                                              else { ManifestIdValidationError::BucketNotFound(b) }),
                final(self).proof_ids == old(self).proof_ids,
                final(self).id_allocator == old(self).id_allocator,
                old(self).same_addresses(final(self)),
                old(self).no_resurrection(final(self)),
        @*/

        /*@fn radix-transactions/src/validation/id_validator.rs :: impl TransformHandler<ManifestIdValidationError> for BasicManifestValidator :: fn replace_proof
        @sig
            requires old(self).wf(),
            ensures
                final(self).wf(),
                ret is Ok <==> old(self).proof_ids@.contains_key(p),
                ret is Ok ==> final(self).proof_ids@ == old(self).proof_ids@.remove(p)
                    && final(self).bucket_ids@ == counts_after_drop_proof(old(self).bucket_ids@, old(self).proof_ids@[p]),
                ret is Err ==> final(self).proof_ids@ == old(self).proof_ids@ && final(self).bucket_ids@ == old(self).bucket_ids@,
                ret matches Err(e) ==> e == ManifestIdValidationError::ProofNotFound(p),
                final(self).bucket_ids@.dom() == old(self).bucket_ids@.dom(),
                final(self).id_allocator == old(self).id_allocator,
                old(self).same_addresses(final(self)),
                old(self).no_resurrection(final(self)),
        @*/

        /*@fn radix-transactions/src/validation/id_validator.rs :: impl TransformHandler<ManifestIdValidationError> for BasicManifestValidator :: fn replace_address_reservation
        @sig
            requires old(self).wf(),
            ensures
                final(self).wf(),
                ret is Ok <==> old(self).address_reservation_ids@.contains(r),
                ret is Ok ==> final(self).address_reservation_ids@ == old(self).address_reservation_ids@.remove(r),
                ret is Err ==> final(self).address_reservation_ids@ == old(self).address_reservation_ids@,
                ret matches Err(e) ==> e == ManifestIdValidationError::AddressReservationNotFound(r),
                final(self).bucket_ids == old(self).bucket_ids,
                final(self).proof_ids == old(self).proof_ids,
                final(self).address_ids == old(self).address_ids,
                final(self).intent_ids == old(self).intent_ids,
                final(self).id_allocator == old(self).id_allocator,
                old(self).no_resurrection(final(self)),
        @*/

        /*@fn radix-transactions/src/validation/id_validator.rs :: impl TransformHandler<ManifestIdValidationError> for BasicManifestValidator :: fn replace_named_address
        @sig
            ensures
                *final(self) == *old(self),
                ret is Ok <==> old(self).address_ids@.contains(a),
                ret matches Err(e) ==> e == ManifestIdValidationError::AddressNotFound(a),
        @*/
    }

    // ---- client scenarios: the contracts above are strong enough to decide concrete manifests ----
    /// "nothing is consumed twice" + "a bucket with a live proof cannot be consumed", end to end
    /// through the real functions (checked statically from their contracts only).
    pub fn scenario_lifecycle() {
        let mut v = BasicManifestValidator::new();
        let b = v.new_bucket();
        let p = match v.new_proof(ProofKind::BucketProof(b)) { Ok(p) => p, Err(_) => { assert(false); return; } };
        let q = match v.clone_proof(&p) { Ok(q) => q, Err(_) => { assert(false); return; } };
        assert(p != q);
        // locked while either proof is live
        proof { assert(v.proof_ids@.contains_key(p) && v.proof_ids@[p] == ProofKind::BucketProof(b)); }
        let r = v.drop_bucket(&b);
        assert(r == Err::<(), _>(ManifestIdValidationError::BucketLocked(b)));
        let r = v.drop_proof(&p);
        assert(r is Ok);
        proof { assert(v.proof_ids@.contains_key(q) && v.proof_ids@[q] == ProofKind::BucketProof(b)); }
        let r = v.drop_bucket(&b);
        assert(r is Err);
        // a consumed proof cannot be consumed or cloned again
        let r = v.drop_proof(&p);
        assert(r == Err::<(), _>(ManifestIdValidationError::ProofNotFound(p)));
        let r = v.clone_proof(&p);
        assert(r is Err);
        let r = v.drop_all_named_proofs();
        assert(r is Ok);
        // now unlocked: consumed once, and only once
        let r = v.drop_bucket(&b);
        assert(r is Ok);
        let r = v.drop_bucket(&b);
        assert(r == Err::<(), _>(ManifestIdValidationError::BucketNotFound(b)));
        let r = v.new_proof(ProofKind::BucketProof(b));
        assert(r is Err);
        // a fresh bucket never reuses the consumed id
        let b2 = v.new_bucket();
        assert(b2 != b);
        let r = v.check_bucket(&b);
        assert(r is Err);
    }
}
} // verus!
fn main() {}
