// Unit c24_decimal -- property C24 "Decimal arithmetic is exact or reports overflow" (Decimal part)
// Real code: radix-common/src/math/decimal.rs -- checked_neg/add/sub/mul/div, checked_abs, sign tests,
// the panicking operators, over the ASSUMED mathematical contracts of the bnum wrappers (shims/bigint.rs).
use vstd::prelude::*;
verus! {
/*@include shims/rt.rs @*/
/*@include shims/bigint.rs @*/

pub mod env {
    use vstd::prelude::*;
    use super::bigint::*;
    /*@item radix-common/src/math/traits.rs :: trait CheckedAdd<Rhs = Self>
    @*/
    /*@item radix-common/src/math/traits.rs :: trait CheckedSub<Rhs = Self>
    @*/
    /*@item radix-common/src/math/traits.rs :: trait CheckedMul<Rhs = Self>
    @*/
    /*@item radix-common/src/math/traits.rs :: trait CheckedDiv<Rhs = Self>
    @*/
    /*@item radix-common/src/math/traits.rs :: trait CheckedNeg<Rhs = Self>
    @*/
    /*@item radix-common/src/math/traits.rs :: trait SaturatingAdd<Rhs = Self>
    @*/

    /*@item radix-common/src/math/decimal.rs :: struct Decimal
    @derive Clone, Copy
    @*/
    /*@item radix-common/src/math/decimal.rs :: type InnerDecimal
    @*/
    // ASSUMED: derived PartialEq on the one-field tuple struct compares the field
    impl PartialEq for Decimal { #[verifier::external_body] fn eq(&self, o: &Decimal) -> (r: bool) ensures r == (self.0.v() == o.0.v()) { unimplemented!() } }
    impl vstd::std_specs::cmp::PartialEqSpecImpl for Decimal {
        open spec fn obeys_eq_spec() -> bool { true }
        open spec fn eq_spec(&self, o: &Decimal) -> bool { self.0.v() == o.0.v() }
    }
    pub open spec fn one() -> int { 1_000_000_000_000_000_000 }
    // ASSUMED constants (their definitions use const-fn digit constructors outside Verus' subset);
    // cross-checked on the real type by kani/l0_bigint::decimal_constants
    impl Decimal {
        #[verifier::external_body] pub const MIN: Decimal = Decimal(I192::MIN);
        #[verifier::external_body] pub const MAX: Decimal = Decimal(I192::MAX);
        #[verifier::external_body] pub const ZERO: Decimal = Decimal(I192::ZERO);
        #[verifier::external_body] pub const ONE: Decimal = Decimal(I192::ONE);
    }
    pub broadcast axiom fn ax_decimal_consts()
        ensures #![trigger Decimal::MIN.0] #![trigger Decimal::MAX.0] #![trigger Decimal::ZERO.0] #![trigger Decimal::ONE.0]
            Decimal::MIN.0.v() == i192_min(), Decimal::MAX.0.v() == i192_max(), Decimal::ZERO.0.v() == 0, Decimal::ONE.0.v() == one();
}

pub mod unit {
    use vstd::prelude::*;
    use super::rt::*;
    use super::bigint::*;
    use super::env::*;
    use super::env::Decimal;
    use core::ops::{Add, Sub, Mul, Div, Neg};
    broadcast use {group_bigint, ax_decimal_consts};

    // ---- oracle: exact arithmetic on sub-units (10^-18), truncation toward zero ---------------
    pub open spec fn mul_spec(a: int, b: int) -> int { tdiv(a * b, one()) }
    pub open spec fn div_spec(a: int, b: int) -> int { tdiv(a * one(), b) }

    /// the 256-bit intermediate never loses a representable product:
    /// |p| >= 2^255  ==>  |p / 10^18| >= 2^191   (2^191 * 10^18 < 2^251)
    pub proof fn lemma_mul_width(p: int)
        ensures in_i192(tdiv(p, one())) ==> in_i256(p)
    {
        if p > i256_max() { assert(tdiv(p, one()) == p / one()); assert(p / one() > i192_max()); }
        if p < i256_min() { assert(tdiv(p, one()) == -((-p) / one())); assert((-p) / one() > i192_max() + 1); }
    }
    /// a * 10^18 always fits 256 bits for a 192-bit a
    pub proof fn lemma_div_width(a: int)
        requires in_i192(a)
        ensures in_i256(a * one())
    {}

    impl Decimal {
        /*@fn radix-common/src/math/decimal.rs :: impl Decimal :: fn from_attos
        @sig
            ensures ret.0 == attos
        @*/
        /*@fn radix-common/src/math/decimal.rs :: impl Decimal :: fn attos
        @sig
            ensures ret == self.0
        @*/
        /*@fn radix-common/src/math/decimal.rs :: impl Decimal :: fn zero
        @sig
            ensures ret.0.v() == 0
        @*/
        /*@fn radix-common/src/math/decimal.rs :: impl Decimal :: fn one
        @sig
            ensures ret.0.v() == one()
        @*/
        /*@fn radix-common/src/math/decimal.rs :: impl Decimal :: fn is_zero
        @sig
            ensures ret == (self.0.v() == 0)
        @*/
        /*@fn radix-common/src/math/decimal.rs :: impl Decimal :: fn is_positive
        @sig
            ensures ret == (self.0.v() > 0)
        @*/
        /*@fn radix-common/src/math/decimal.rs :: impl Decimal :: fn is_negative
        @sig
            ensures ret == (self.0.v() < 0)
        @*/
        /*@fn radix-common/src/math/decimal.rs :: impl Decimal :: fn checked_abs
        @sig
            ensures ret matches Some(r) ==> r.0.v() == (if self.0.v() < 0 { -self.0.v() } else { self.0.v() }),
                    ret is None <==> self.0.v() == i192_min(),
        @*/
    }

    impl CheckedNeg<Decimal> for Decimal {
        type Output = Self;
        /*@fn radix-common/src/math/decimal.rs :: impl CheckedNeg<Decimal> for Decimal :: fn checked_neg
        @sig
            ensures ret matches Some(r) ==> r.0.v() == -self.0.v(),
                    ret is Some <==> in_i192(-self.0.v()),
        @subst <<c.map(Self)>> => <<c.map(|x: I192| -> (r: Decimal) ensures r.0 == x { Decimal(x) })>> why: Verus rejects a tuple-struct constructor used as a function value; the closure is its eta-expansion
        @*/
    }
    impl CheckedAdd<Decimal> for Decimal {
        type Output = Self;
        /*@fn radix-common/src/math/decimal.rs :: impl CheckedAdd<Decimal> for Decimal :: fn checked_add
        @sig
            ensures ret matches Some(r) ==> r.0.v() == self.0.v() + other.0.v(),
                    ret is Some <==> in_i192(self.0.v() + other.0.v()),
        @subst <<c.map(Self)>> => <<c.map(|x: I192| -> (r: Decimal) ensures r.0 == x { Decimal(x) })>> why: Verus rejects a tuple-struct constructor used as a function value; the closure is its eta-expansion
        @*/
    }
    impl CheckedSub<Decimal> for Decimal {
        type Output = Self;
        /*@fn radix-common/src/math/decimal.rs :: impl CheckedSub<Decimal> for Decimal :: fn checked_sub
        @sig
            ensures ret matches Some(r) ==> r.0.v() == self.0.v() - other.0.v(),
                    ret is Some <==> in_i192(self.0.v() - other.0.v()),
        @subst <<c.map(Self)>> => <<c.map(|x: I192| -> (r: Decimal) ensures r.0 == x { Decimal(x) })>> why: Verus rejects a tuple-struct constructor used as a function value; the closure is its eta-expansion
        @*/
    }
    impl SaturatingAdd<Decimal> for Decimal {
        type Output = Self;
        /*@fn radix-common/src/math/decimal.rs :: impl SaturatingAdd<Decimal> for Decimal :: fn saturating_add
        @sig
            ensures ret.0.v() == (if self.0.v() + other.0.v() > i192_max() { i192_max() } else if self.0.v() + other.0.v() < i192_min() { i192_min() } else { self.0.v() + other.0.v() }),
        @*/
    }
    impl CheckedMul<Decimal> for Decimal {
        type Output = Self;
        /*@fn radix-common/src/math/decimal.rs :: impl CheckedMul<Decimal> for Decimal :: fn checked_mul
        @sig
            ensures ret matches Some(r) ==> r.0.v() == mul_spec(self.0.v(), other.0.v()),
                    ret is Some <==> (in_i192(mul_spec(self.0.v(), other.0.v())) && mul_spec(self.0.v(), other.0.v()) != i192_min()),
        @entry
            proof { lemma_mul_width(self.0.v() * other.0.v()); }
        @subst <<c_192.map(Self)>> => <<c_192.map(|x: I192| -> (r: Decimal) ensures r.0 == x { Decimal(x) })>> why: Verus rejects a tuple-struct constructor used as a function value; the closure is its eta-expansion
        @*/
    }
    impl CheckedDiv<Decimal> for Decimal {
        type Output = Self;
        /*@fn radix-common/src/math/decimal.rs :: impl CheckedDiv<Decimal> for Decimal :: fn checked_div
        @sig
            ensures ret matches Some(r) ==> other.0.v() != 0 && r.0.v() == div_spec(self.0.v(), other.0.v()),
                    ret is Some <==> (other.0.v() != 0 && in_i192(div_spec(self.0.v(), other.0.v())) && div_spec(self.0.v(), other.0.v()) != i192_min()),
        @entry
            proof { lemma_div_width(self.0.v()); }
        @subst <<c_192.map(Self)>> => <<c_192.map(|x: I192| -> (r: Decimal) ensures r.0 == x { Decimal(x) })>> why: Verus rejects a tuple-struct constructor used as a function value; the closure is its eta-expansion
        @*/
    }

    // ---- C24 AS STATED, at the boundary: "whenever that result is representable" -------------------
    // EXPECTED TO FAIL -- known finding (known_findings.txt; replayed on the real crate by
    // kani/common_h test c24_finding_min_times_one_is_reported_as_overflow): a product or quotient equal
    // to the most negative value is representable, yet checked_mul / checked_div report None, because the
    // wide -> narrow conversion of the bnum wrappers rejects -2^(N-1).
    pub fn checked_mul_reports_every_representable_product_KNOWN_FINDING(a: Decimal, b: Decimal) -> (r: Option<Decimal>)
        ensures r is Some <==> in_i192(mul_spec(a.0.v(), b.0.v()))
    { a.checked_mul(b) }
    pub fn checked_div_reports_every_representable_quotient_KNOWN_FINDING(a: Decimal, b: Decimal) -> (r: Option<Decimal>)
        ensures r is Some <==> (b.0.v() != 0 && in_i192(div_spec(a.0.v(), b.0.v())))
    { a.checked_div(b) }
    // ---- panicking operators: panic <==> the checked operation reports None -------------------
    impl vstd::std_specs::ops::AddSpecImpl<Decimal> for Decimal {
        open spec fn obeys_add_spec() -> bool { true }
        open spec fn add_req(self, o: Decimal) -> bool { in_i192(self.0.v() + o.0.v()) }
        open spec fn add_spec(self, o: Decimal) -> Decimal { Decimal(I192::of(self.0.v() + o.0.v())) }
    }
    impl Add<Decimal> for Decimal {
        type Output = Self;
        /*@fn radix-common/src/math/decimal.rs :: impl Add<Decimal> for Decimal :: fn add
        @entry
            proof { assert(in_i192(self.0.v() + other.0.v())); assert(I192::of(self.0.v() + other.0.v()).v() == self.0.v() + other.0.v()); }
        @*/
    }
    impl vstd::std_specs::ops::SubSpecImpl<Decimal> for Decimal {
        open spec fn obeys_sub_spec() -> bool { true }
        open spec fn sub_req(self, o: Decimal) -> bool { in_i192(self.0.v() - o.0.v()) }
        open spec fn sub_spec(self, o: Decimal) -> Decimal { Decimal(I192::of(self.0.v() - o.0.v())) }
    }
    impl Sub<Decimal> for Decimal {
        type Output = Self;
        /*@fn radix-common/src/math/decimal.rs :: impl Sub<Decimal> for Decimal :: fn sub
        @entry
            proof { assert(in_i192(self.0.v() - other.0.v())); assert(I192::of(self.0.v() - other.0.v()).v() == self.0.v() - other.0.v()); }
        @*/
    }
    impl vstd::std_specs::ops::MulSpecImpl<Decimal> for Decimal {
        open spec fn obeys_mul_spec() -> bool { true }
        open spec fn mul_req(self, o: Decimal) -> bool { in_i192(mul_spec(self.0.v(), o.0.v())) && mul_spec(self.0.v(), o.0.v()) != i192_min() }
        open spec fn mul_spec(self, o: Decimal) -> Decimal { Decimal(I192::of(mul_spec(self.0.v(), o.0.v()))) }
    }
    impl Mul<Decimal> for Decimal {
        type Output = Self;
        /*@fn radix-common/src/math/decimal.rs :: impl Mul<Decimal> for Decimal :: fn mul
        @entry
            proof { assert(in_i192(mul_spec(self.0.v(), other.0.v()))); assert(I192::of(mul_spec(self.0.v(), other.0.v())).v() == mul_spec(self.0.v(), other.0.v())); }
        @*/
    }
    impl vstd::std_specs::ops::DivSpecImpl<Decimal> for Decimal {
        open spec fn obeys_div_spec() -> bool { true }
        open spec fn div_req(self, o: Decimal) -> bool { o.0.v() != 0 && in_i192(div_spec(self.0.v(), o.0.v())) && div_spec(self.0.v(), o.0.v()) != i192_min() }
        open spec fn div_spec(self, o: Decimal) -> Decimal { Decimal(I192::of(div_spec(self.0.v(), o.0.v()))) }
    }
    impl Div<Decimal> for Decimal {
        type Output = Self;
        /*@fn radix-common/src/math/decimal.rs :: impl Div<Decimal> for Decimal :: fn div
        @entry
            proof { assert(in_i192(div_spec(self.0.v(), other.0.v()))); assert(I192::of(div_spec(self.0.v(), other.0.v())).v() == div_spec(self.0.v(), other.0.v())); }
        @*/
    }
    impl vstd::std_specs::ops::NegSpecImpl for Decimal {
        open spec fn obeys_neg_spec() -> bool { true }
        open spec fn neg_req(self) -> bool { in_i192(-self.0.v()) }
        open spec fn neg_spec(self) -> Decimal { Decimal(I192::of(-self.0.v())) }
    }
    impl Neg for Decimal {
        type Output = Self;
        /*@fn radix-common/src/math/decimal.rs :: impl Neg for Decimal :: fn neg
        @entry
            proof { assert(in_i192(-self.0.v())); assert(I192::of(-self.0.v()).v() == -self.0.v()); }
        @*/
    }
}
} // verus!
fn main() {}
