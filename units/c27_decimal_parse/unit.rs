// Unit c27_decimal_parse -- property C27 "Decimal text parsing and printing are exact inverses", PARSING half:
//   "parsing accepts exactly optionally-signed decimal numerals with at most the type's number of fractional
//    digits that fit in range, and yields their exact value."
// Real code (bodies extracted verbatim on every run):
//   radix-common/src/math/decimal.rs          :: impl FromStr for Decimal        :: from_str  (+ type Err, enum ParseDecimalError, const SCALE)
//   radix-common/src/math/precise_decimal.rs  :: impl FromStr for PreciseDecimal :: from_str  (+ type Err, enum ParsePreciseDecimalError, const SCALE)
// Oracle (from the property, on the CHARACTER sequence of the input): a numeral is  [+-]?D+(\.D+)?  with at most
//   S fractional digits (S = 18 / 36); its value in sub-units is  int_part * 10^S  (+ or -)  frac * 10^(S - k),
//   with the sign of the numeral ("-0.5" is negative although its integer part is 0).
// Proved for EVERY &str shorter than 4 GiB (precondition byte_len(s@) <= u32::MAX, see below):
//   soundness     Ok(d)  ==>  the text is a numeral  &&  d == value(text)          (nothing else is accepted; this is
//                 the clause violated by the defect fixed in /repo 5c4b0ece77: "1.-5" was accepted as 0.95)
//   completeness  Ok    <==>  the text is a numeral  &&  value(text) is representable (incl. the most negative value)
//   errors        Err(e) ==>  e is the rejection the oracle `rejection` names (first offending feature, in the order
//                 points / integer part / integer overflow / places / fractional part / overflow), with one documented
//                 slack (`rejected_as`): a malformed integer part longer than 38 bytes may be reported as Overflow
//   no panic      `v[0]`, `v[1]`, the four `unreachable!` arms, `.expect("No overflow possible")`, `I192::TEN.pow(scale)`
// Strings: `str` is `Seq<char>` in this vstd; `str::len` is the UTF-8 BYTE length. The fractional part may hold
//   non-ASCII characters when `len` is taken: the places check is stated on bytes (`byte_len`), and digits-only
//   texts are shown to have byte length == number of characters (vstd lemma is_ascii_chars_encode_utf8).
// Precondition (machine range): byte_len(s@) <= u32::MAX. Verus forbids `requires` on trait-impl methods, so it sits
//   on the FromStr trait declaration in shims/bigint_from_str_c27.rs. It is NEEDED on 64-bit hosts: the parsers compute
//   `v[1].len() as u32`, which wraps at 4 GiB. Replayed on the real crate (native, 62 GB host):
//     "0." + 2^32 zeros + "5"            -> Ok(0.5)        (2^32+1 fractional digits accepted with a wrong value)
//     "0." + (2^32-50) zeros + 51 nines  -> panic "No overflow possible" (decimal.rs:845)
//   Reported as a finding, not worked around. On wasm32 (usize = 32 bits) the precondition always holds.
// @subst (2 per function, both notational, bodies otherwise verbatim):
//   `s.split(` => `split_char(s,`                        core::str::Split<'a, P> cannot be named (Pattern has a GAT)
//   `v[1].starts_with(` => `v[1].starts_with_char_fn(`   closure patterns need an axiom that does not fire in trait impls
//   + @closure on the sign test `|c: char| c == '+' || c == '-'` (its body is verified against `b == (c is a sign)`).
//   CONSEQUENCE: a patch that DELETES the sign guard loses these three anchors => the unit is UNDECIDED (lost anchor),
//   not a VIOLATION; every neutralisation that keeps the statement (closure => false, one sign only, negated test,
//   `&& len > 1`, other error) is a VIOLATION (mutants.txt), and the assembled file with the guard deleted by hand
//   fails `Decimal::from_str` (soundness), so the contract itself does catch the defect.
// Assumed (trusted base): shims/bigint.rs (bnum arithmetic), shims/bigint_from_str_c27.rs (bnum integer parser),
//   shims/str_split_c27.rs (`str::split(char)`+collect, `starts_with`, byte length fits usize).
// NOT covered: `impl Display` / `to_string` (core::fmt). The round-trip clause is only stated at ORACLE level
//   (lemma_printed_form_denotes_value, parse_of_printed_form_*): for every text of the documented printing format the
//   parser returns the value -- this is a statement about the parser, not about the code of `fmt`.
#![feature(pattern)]
use vstd::prelude::*;
verus! {
/*@include shims/rt.rs @*/
/*@include shims/bigint.rs @*/
/*@include shims/bigint_from_str_c27.rs @*/
/*@include shims/str_split_c27.rs @*/

pub mod env {
    use vstd::prelude::*;
    use super::bigint::*;

    /*@item radix-common/src/math/decimal.rs :: struct Decimal
    @derive Clone, Copy
    @*/
    /*@item radix-common/src/math/decimal.rs :: type InnerDecimal
    @*/
    /*@item radix-common/src/math/precise_decimal.rs :: struct PreciseDecimal
    @derive Clone, Copy
    @*/
    /*@item radix-common/src/math/precise_decimal.rs :: type InnerPreciseDecimal
    @*/
    pub open spec fn one18() -> int { 1_000_000_000_000_000_000 }
    pub open spec fn one36() -> int { 1_000_000_000_000_000_000_000_000_000_000_000_000 }
    // ASSUMED constant (its definition uses const-fn digit constructors outside Verus' subset); same assumption
    // as units c24_decimal / c24_precise_decimal, cross-checked on the real type by kani/l0_bigint::decimal_constants
    impl Decimal {
        #[verifier::external_body] pub const ONE: Decimal = Decimal(I192::ONE);
        /*@item radix-common/src/math/decimal.rs :: impl Decimal :: const SCALE
        @*/
    }
    impl PreciseDecimal {
        #[verifier::external_body] pub const ONE: PreciseDecimal = PreciseDecimal(I256::ONE);
        /*@item radix-common/src/math/precise_decimal.rs :: impl PreciseDecimal :: const SCALE
        @*/
    }
    pub broadcast axiom fn ax_decimal_one()
        ensures #![trigger Decimal::ONE.0] Decimal::ONE.0.v() == one18();
    pub broadcast axiom fn ax_precise_decimal_one()
        ensures #![trigger PreciseDecimal::ONE.0] PreciseDecimal::ONE.0.v() == one36();
}

pub mod unit {
    use vstd::prelude::*;
    use vstd::string::*;
    use vstd::utf8::*;
    use core::str::FromStr;
    use super::rt::*;
    use super::bigint::*;
    use super::bigint_from_str_c27::*;
    use super::str_split_c27::*;
    use super::env::*;
    use super::env::Decimal;
    broadcast use {group_bigint, ax_decimal_one, ax_precise_decimal_one, ax_pat_char};

    /*@item radix-common/src/math/decimal.rs :: enum ParseDecimalError
    @derive
    @*/
    /*@item radix-common/src/math/precise_decimal.rs :: enum ParsePreciseDecimalError
    @derive
    @*/

    // ==========================================================================================
    // ORACLE: decimal numerals and their exact value (written from the property statement)
    // ==========================================================================================
    /// index of the first '.', or the length if there is none
    pub open spec fn dot_pos(t: Seq<char>) -> int
        decreases t.len()
    {
        if t.len() == 0 || t[0] == '.' { 0 } else { 1 + dot_pos(t.skip(1)) }
    }
    pub open spec fn int_text(t: Seq<char>) -> Seq<char> { t.take(dot_pos(t)) }
    pub open spec fn has_point(t: Seq<char>) -> bool { dot_pos(t) < t.len() }
    /// everything after the first '.'
    pub open spec fn frac_text(t: Seq<char>) -> Seq<char> { t.skip(dot_pos(t) + 1) }
    /// [+-]?D+(\.D+)?  with at most `scale` fractional digits
    pub open spec fn is_numeral(t: Seq<char>, scale: nat) -> bool {
        &&& is_int_numeral(int_text(t))
        &&& has_point(t) ==> all_digits(frac_text(t)) && 1 <= frac_text(t).len() <= scale
    }
    pub open spec fn is_negative_text(t: Seq<char>) -> bool { t.len() > 0 && t[0] == '-' }
    /// exact value in sub-units (10^-scale) of a numeral
    pub open spec fn numeral_value(t: Seq<char>, scale: nat) -> int {
        let whole = int_val(int_text(t)) * ipow(10, scale);
        if !has_point(t) { whole } else {
            let part = dec_val(frac_text(t)) * ipow(10, (scale - frac_text(t).len()) as nat);
            if is_negative_text(t) { whole - part } else { whole + part }
        }
    }

    /// why a text is rejected: the FIRST offending feature in reading order of the parser; None = accepted
    pub enum Rejection { MoreThanOnePoint, EmptyIntegral, InvalidDigit, Overflow, TooManyPlaces, EmptyFractional }
    pub open spec fn rejection(t: Seq<char>, scale: nat, lo: int, hi: int) -> Option<Rejection> {
        let ip = int_text(t);
        let f = frac_text(t);
        if has_point(t) && !sep_free(f, '.') { Some(Rejection::MoreThanOnePoint) }
        else if ip.len() == 0 { Some(Rejection::EmptyIntegral) }
        else if !is_int_numeral(ip) { Some(Rejection::InvalidDigit) }
        else if !(lo <= int_val(ip) * ipow(10, scale) <= hi) { Some(Rejection::Overflow) }
        else if !has_point(t) { None }
        else if byte_len(f) > scale { Some(Rejection::TooManyPlaces) }
        else if has_sign(f) { Some(Rejection::InvalidDigit) }
        else if f.len() == 0 { Some(Rejection::EmptyFractional) }
        else if !all_digits(f) { Some(Rejection::InvalidDigit) }
        else if !(lo <= numeral_value(t, scale) <= hi) { Some(Rejection::Overflow) }
        else { None }
    }
    /// the error actually returned may differ from `rejection` in ONE documented case: an integer part that is
    /// not a numeral and longer than 38 bytes may be reported as Overflow by the big-integer parser (shim F4)
    pub open spec fn rejected_as(t: Seq<char>, scale: nat, lo: int, hi: int, r: Rejection) -> bool {
        rejection(t, scale, lo, hi) == Some(r)
        || (rejection(t, scale, lo, hi) == Some(Rejection::InvalidDigit) && !is_int_numeral(int_text(t))
            && !(has_point(t) && !sep_free(frac_text(t), '.')) && r == Rejection::Overflow && !short_text(int_text(t)))
    }
    pub open spec fn dec_rejection(e: ParseDecimalError) -> Option<Rejection> {
        match e {
            ParseDecimalError::InvalidDigit => Some(Rejection::InvalidDigit),
            ParseDecimalError::Overflow => Some(Rejection::Overflow),
            ParseDecimalError::EmptyIntegralPart => Some(Rejection::EmptyIntegral),
            ParseDecimalError::EmptyFractionalPart => Some(Rejection::EmptyFractional),
            ParseDecimalError::MoreThanEighteenDecimalPlaces => Some(Rejection::TooManyPlaces),
            ParseDecimalError::MoreThanOneDecimalPoint => Some(Rejection::MoreThanOnePoint),
            ParseDecimalError::InvalidLength(_) => None,
        }
    }
    pub open spec fn pdec_rejection(e: ParsePreciseDecimalError) -> Option<Rejection> {
        match e {
            ParsePreciseDecimalError::InvalidDigit => Some(Rejection::InvalidDigit),
            ParsePreciseDecimalError::Overflow => Some(Rejection::Overflow),
            ParsePreciseDecimalError::EmptyIntegralPart => Some(Rejection::EmptyIntegral),
            ParsePreciseDecimalError::EmptyFractionalPart => Some(Rejection::EmptyFractional),
            ParsePreciseDecimalError::MoreThanThirtySixDecimalPlaces => Some(Rejection::TooManyPlaces),
            ParsePreciseDecimalError::MoreThanOneDecimalPoint => Some(Rejection::MoreThanOnePoint),
            ParsePreciseDecimalError::InvalidLength(_) => None,
        }
    }

    // ==========================================================================================
    // LEMMAS
    // ==========================================================================================
    // ---- powers of ten -----------------------------------------------------------------------
    pub proof fn lemma_ipow_add(b: int, m: nat, n: nat)
        ensures ipow(b, m + n) == ipow(b, m) * ipow(b, n)
        decreases m
    {
        if m == 0 {
            assert(ipow(b, 0) == 1);
        } else {
            lemma_ipow_add(b, (m - 1) as nat, n);
            assert(ipow(b, m + n) == b * ipow(b, ((m + n) - 1) as nat));
            assert(((m + n) - 1) as nat == ((m - 1) as nat) + n);
            assert(ipow(b, m) == b * ipow(b, (m - 1) as nat));
            assert(b * (ipow(b, (m - 1) as nat) * ipow(b, n)) == (b * ipow(b, (m - 1) as nat)) * ipow(b, n)) by (nonlinear_arith);
        }
    }
    pub proof fn lemma_ipow10_pos_mono(m: nat, n: nat)
        requires m <= n
        ensures 1 <= ipow(10, m) <= ipow(10, n)
        decreases n
    {
        if m == 0 && n == 0 {
        } else if m == n {
            lemma_ipow10_pos_mono((m - 1) as nat, (m - 1) as nat);
        } else {
            lemma_ipow10_pos_mono(m, (n - 1) as nat);
        }
    }
    pub proof fn lemma_ipow10_18()
        ensures ipow(10, 18) == one18()
    {
        reveal_with_fuel(ipow, 20);
    }
    pub proof fn lemma_ipow10_36()
        ensures ipow(10, 36) == one36()
    {
        lemma_ipow10_18();
        lemma_ipow_add(10, 18, 18);
        assert(one18() * one18() == one36());
    }

    // ---- digit strings -------------------------------------------------------------------------
    pub proof fn lemma_dec_val_bounds(f: Seq<char>)
        requires all_digits(f)
        ensures 0 <= dec_val(f) < ipow(10, f.len())
        decreases f.len()
    {
        if f.len() == 0 {
        } else {
            let g = f.drop_last();
            assert forall|i: int| 0 <= i < g.len() implies is_digit(#[trigger] g[i]) by { assert(g[i] == f[i]); }
            lemma_dec_val_bounds(g);
            assert(is_digit(f[f.len() - 1]));
            assert(0 <= digit_val(f.last()) <= 9);
            assert(ipow(10, f.len()) == 10 * ipow(10, (f.len() - 1) as nat));
        }
    }
    /// a fractional digit string of k <= scale digits contributes less than one unit
    pub proof fn lemma_frac_part_bound(f: Seq<char>, scale: nat)
        requires all_digits(f), f.len() <= scale
        ensures
            0 <= dec_val(f) < ipow(10, f.len()),
            1 <= ipow(10, (scale - f.len()) as nat) <= ipow(10, scale),
            0 <= dec_val(f) * ipow(10, (scale - f.len()) as nat) < ipow(10, scale),
    {
        lemma_dec_val_bounds(f);
        let k = f.len();
        let r = (scale - k) as nat;
        lemma_ipow10_pos_mono(r, scale);
        lemma_ipow10_pos_mono(0, k);
        lemma_ipow_add(10, k, r);
        assert(k + r == scale);
        let d = dec_val(f); let a = ipow(10, k); let b = ipow(10, r);
        assert(0 <= d * b < a * b) by (nonlinear_arith) requires 0 <= d < a, 1 <= b;
    }
    /// digits only: ASCII, so the byte length is the number of characters; no sign, no point
    pub proof fn lemma_digits_are_ascii(f: Seq<char>)
        requires all_digits(f)
        ensures byte_len(f) == f.len(), sep_free(f, '.'), !has_sign(f), magnitude_text(f) == f,
            f.len() >= 1 ==> is_int_numeral(f) && int_val(f) == dec_val(f),
    {
        assert(is_ascii_chars(f)) by {
            assert forall|i: int| 0 <= i < f.len() implies 0 <= #[trigger] f[i] as u32 <= 127 by { assert(is_digit(f[i])); }
        }
        is_ascii_chars_encode_utf8(f);
        assert forall|i: int| 0 <= i < f.len() implies #[trigger] f[i] != '.' by { assert(is_digit(f[i])); }
        if f.len() > 0 { assert(is_digit(f[0])); }
    }
    /// an unsigned integer numeral is a non-empty digit string
    pub proof fn lemma_unsigned_numeral(f: Seq<char>)
        requires is_int_numeral(f), !has_sign(f)
        ensures all_digits(f), f.len() >= 1, int_val(f) == dec_val(f)
    {
        assert(is_digit(f[0]));
    }
    /// sign of an integer numeral's value; the numeral has no point
    pub proof fn lemma_int_numeral_sign(ip: Seq<char>)
        requires is_int_numeral(ip)
        ensures
            ip.len() >= 1,
            int_val(ip) < 0 ==> ip[0] == '-',
            ip[0] == '-' ==> int_val(ip) <= 0,
            ip[0] != '-' ==> int_val(ip) >= 0,
            sep_free(ip, '.'),
    {
        let m = magnitude_text(ip);
        lemma_dec_val_bounds(m);
        lemma_digits_are_ascii(m);
        assert forall|i: int| 0 <= i < ip.len() implies #[trigger] ip[i] != '.' by {
            if has_sign(ip) { if i > 0 { assert(m[i - 1] == ip[i]); } } else { assert(m[i] == ip[i]); }
        }
    }

    pub proof fn lemma_dot_pos_range(t: Seq<char>)
        ensures 0 <= dot_pos(t) <= t.len()
        decreases t.len()
    {
        if t.len() == 0 || t[0] == '.' { } else { lemma_dot_pos_range(t.skip(1)); }
    }
    // ---- the pieces of `split('.')` are the parts the oracle names ------------------------------
    pub proof fn lemma_dot_pos_prefix(a: Seq<char>, rest: Seq<char>)
        requires sep_free(a, '.'), rest.len() == 0 || rest[0] == '.'
        ensures dot_pos(a + rest) == a.len()
        decreases a.len()
    {
        let t = a + rest;
        if a.len() == 0 {
            assert(t =~= rest);
        } else {
            assert(t[0] == a[0]);
            assert(a[0] != '.');
            let a1 = a.skip(1);
            assert forall|i: int| 0 <= i < a1.len() implies #[trigger] a1[i] != '.' by { assert(a1[i] == a[i + 1]); }
            assert(t.skip(1) =~= a1 + rest);
            lemma_dot_pos_prefix(a1, rest);
        }
    }
    /// S1 determines the pieces: first piece = text before the first point; one piece <==> no point; with two
    /// pieces the second is everything after the point; with more, the text after the first point has a point
    pub proof fn lemma_split_shape(t: Seq<char>, ps: Seq<Seq<char>>)
        requires is_split_of(t, '.', ps)
        ensures
            int_text(t) == ps[0],
            ps.len() == 1 <==> !has_point(t),
            ps.len() == 2 ==> frac_text(t) == ps[1] && sep_free(frac_text(t), '.'),
            ps.len() > 2 ==> !sep_free(frac_text(t), '.'),
            byte_len(ps[0]) <= byte_len(t),
            ps.len() == 2 ==> byte_len(ps[1]) <= byte_len(t),
    {
        let a = ps[0];
        assert(sep_free(a, '.'));
        if ps.len() == 1 {
            assert(t == a);
            lemma_dot_pos_prefix(a, Seq::<char>::empty());
            assert(a + Seq::<char>::empty() =~= a);
            assert(t.take(t.len() as int) =~= t);
        } else {
            let rest = join_with(ps.skip(1), '.');
            let tail = seq!['.'] + rest;
            assert(t == a + seq!['.'] + rest);
            assert(t =~= a + tail);
            lemma_dot_pos_prefix(a, tail);
            assert(t.take(a.len() as int) =~= a);
            assert(t.skip(a.len() as int + 1) =~= rest);
            assert(ps.skip(1)[0] == ps[1]);
            encode_utf8_concat(a, tail);
            encode_utf8_concat(seq!['.'], rest);
            if ps.len() == 2 {
                assert(rest == ps[1]);
                assert(sep_free(ps[1], '.'));
            } else {
                let q = ps.skip(1);
                assert(rest == q[0] + seq!['.'] + join_with(q.skip(1), '.'));
                assert(rest[q[0].len() as int] == '.');
            }
        }
    }

    // ---- the rejection oracle accepts exactly the representable numerals --------------------------
    /// value representable ==> already the integer part times 10^scale is (the fractional part moves away from 0)
    pub proof fn lemma_rejection_none(t: Seq<char>, scale: nat, lo: int, hi: int)
        requires lo <= 0 <= hi
        ensures rejection(t, scale, lo, hi) is None <==> is_numeral(t, scale) && lo <= numeral_value(t, scale) <= hi
    {
        let ip = int_text(t);
        let f = frac_text(t);
        lemma_ipow10_pos_mono(0, scale);
        lemma_dot_pos_range(t);
        if is_int_numeral(ip) {
            lemma_int_numeral_sign(ip);
            assert(ip[0] == t[0]);
            let x = int_val(ip);
            let p = ipow(10, scale);
            assert(x <= 0 ==> x * p <= 0) by (nonlinear_arith) requires p >= 1;
            assert(x >= 0 ==> x * p >= 0) by (nonlinear_arith) requires p >= 1;
            if has_point(t) && all_digits(f) {
                lemma_digits_are_ascii(f);
                if f.len() <= scale { lemma_frac_part_bound(f, scale); }
            }
        }
    }

    // ==========================================================================================
    // THE PARSERS
    // ==========================================================================================
    impl FromStr for Decimal {
        /*@item radix-common/src/math/decimal.rs :: impl FromStr for Decimal :: type Err
        @*/
        /*@fn radix-common/src/math/decimal.rs :: impl FromStr for Decimal :: fn from_str
        @sig
            // precondition (machine range, on the trait declaration in shims/bigint_from_str_c27.rs): byte_len(s@) <= u32::MAX
            ensures
                ret matches Ok(d) ==> is_numeral(s@, 18) && d.0.v() == numeral_value(s@, 18),
                ret is Ok <==> is_numeral(s@, 18) && in_i192(numeral_value(s@, 18)),
                ret matches Err(e) ==> dec_rejection(e) matches Some(r) && rejected_as(s@, 18, i192_min(), i192_max(), r),
        @subst <<s.split(>> => <<split_char(s,>> why: core::str::Split<'a, P> cannot be named in Verus (declaring core::str::pattern::Pattern, a trait with a generic associated type, crashes the front end); split_char(s, c) is the shim for s.split(c) with the assumed contract S1 (shims/str_split_c27.rs); the argument and `.collect()` stay verbatim
        @subst? <<v[1].starts_with(>> => <<v[1].starts_with_char_fn(>> why: the contract of str::starts_with for a CLOSURE pattern needs a broadcast axiom over the closure type, which does not fire inside trait-impl methods on this Verus; s.starts_with_char_fn(f) is the shim for s.starts_with(f) with the assumed contract S2 (shims/str_split_c27.rs); receiver and closure stay verbatim
        @closure? 1 := |c: char| -> (b: bool) ensures b == (c == '+' || c == '-')
        @before <<if v.len()>> #1
            let ghost t = s@;
            let ghost ps = piece_views(v@);
            proof {
                lemma_split_shape(t, ps);
                lemma_ipow10_18();
                lemma_rejection_none(t, 18, i192_min(), i192_max());
                assert(ps[0] == v@[0]@);
                if v@.len() == 2 { assert(ps[1] == v@[1]@); }
                ax_str_len_fits_usize(v@[0]);
                let ip = int_text(t);
                if is_int_numeral(ip) {
                    lemma_int_numeral_sign(ip);
                    let x = int_val(ip);
                    if !in_i192(x) {
                        assert(!in_i192(x * one18())) by (nonlinear_arith) requires !in_i192(x),
                            i192_min() < 0 < i192_max(), one18() >= 1
                        { }
                    }
                }
                if has_point(t) && all_digits(frac_text(t)) { lemma_digits_are_ascii(frac_text(t)); }
            }
        @before <<if v.len()>> #2
            proof {
                assert(subunits.v() == int_val(int_text(t)) * ipow(10, 18));
            }
        @before <<let scale =>>
            proof {
                ax_str_len_fits_usize(v@[1]);
                assert(v@[1].len() as int == byte_len(frac_text(t)));
            }
        @before <<let fractional_part =>>
            proof {
                let f = frac_text(t);
                assert(scale as int == 18 - byte_len(f));
                assert(!has_sign(f));
                assert(short_text(f));
                if is_int_numeral(f) {
                    // an unsigned numeral of at most 18 digits is below 10^18: the integer parser cannot overflow
                    lemma_unsigned_numeral(f);
                    lemma_digits_are_ascii(f);
                    lemma_frac_part_bound(f, 18);
                    lemma_ipow10_pos_mono(f.len(), 18);
                    assert(in_i192(int_val(f)));
                }
            }
        @before <<let fractional_subunits =>>
            proof {
                let f = frac_text(t);
                lemma_unsigned_numeral(f);
                lemma_digits_are_ascii(f);
                lemma_frac_part_bound(f, 18);
                assert(scale as nat == (18 - f.len()) as nat);
                assert(fractional_part.v() == dec_val(f));
                assert(in_i192(ipow(10, scale as nat)));
                assert(in_i192(dec_val(f) * ipow(10, scale as nat)));
            }
        @after <<let fractional_subunits =>>
            proof {
                let f = frac_text(t);
                assert(fractional_subunits.v() == dec_val(f) * ipow(10, (18 - f.len()) as nat));
                assert(is_numeral(t, 18));
                assert(v@[0]@ == int_text(t));
                assert((integer_part.v() < 0 || (int_text(t).len() > 0 && int_text(t)[0] == '-')) <==> is_negative_text(t)) by {
                    assert(int_text(t).len() >= 1);
                    assert(int_text(t)[0] == t[0]);
                }
            }
        @*/
    }
    impl FromStr for PreciseDecimal {
        /*@item radix-common/src/math/precise_decimal.rs :: impl FromStr for PreciseDecimal :: type Err
        @*/
        /*@fn radix-common/src/math/precise_decimal.rs :: impl FromStr for PreciseDecimal :: fn from_str
        @sig
            // precondition (machine range, on the trait declaration in shims/bigint_from_str_c27.rs): byte_len(s@) <= u32::MAX
            ensures
                ret matches Ok(d) ==> is_numeral(s@, 36) && d.0.v() == numeral_value(s@, 36),
                ret is Ok <==> is_numeral(s@, 36) && in_i256(numeral_value(s@, 36)),
                ret matches Err(e) ==> pdec_rejection(e) matches Some(r) && rejected_as(s@, 36, i256_min(), i256_max(), r),
        @subst <<s.split(>> => <<split_char(s,>> why: core::str::Split<'a, P> cannot be named in Verus (declaring core::str::pattern::Pattern, a trait with a generic associated type, crashes the front end); split_char(s, c) is the shim for s.split(c) with the assumed contract S1 (shims/str_split_c27.rs); the argument and `.collect()` stay verbatim
        @subst? <<v[1].starts_with(>> => <<v[1].starts_with_char_fn(>> why: the contract of str::starts_with for a CLOSURE pattern needs a broadcast axiom over the closure type, which does not fire inside trait-impl methods on this Verus; s.starts_with_char_fn(f) is the shim for s.starts_with(f) with the assumed contract S2 (shims/str_split_c27.rs); receiver and closure stay verbatim
        @closure? 1 := |c: char| -> (b: bool) ensures b == (c == '+' || c == '-')
        @before <<if v.len()>> #1
            let ghost t = s@;
            let ghost ps = piece_views(v@);
            proof {
                lemma_split_shape(t, ps);
                lemma_ipow10_36();
                lemma_rejection_none(t, 36, i256_min(), i256_max());
                assert(ps[0] == v@[0]@);
                if v@.len() == 2 { assert(ps[1] == v@[1]@); }
                ax_str_len_fits_usize(v@[0]);
                let ip = int_text(t);
                if is_int_numeral(ip) {
                    lemma_int_numeral_sign(ip);
                    let x = int_val(ip);
                    if !in_i256(x) {
                        assert(!in_i256(x * one36())) by (nonlinear_arith) requires !in_i256(x),
                            i256_min() < 0 < i256_max(), one36() >= 1
                        { }
                    }
                }
                if has_point(t) && all_digits(frac_text(t)) { lemma_digits_are_ascii(frac_text(t)); }
            }
        @before <<if v.len()>> #2
            proof {
                assert(subunits.v() == int_val(int_text(t)) * ipow(10, 36));
            }
        @before <<let scale =>>
            proof {
                ax_str_len_fits_usize(v@[1]);
                assert(v@[1].len() as int == byte_len(frac_text(t)));
            }
        @before <<let fractional_part =>>
            proof {
                let f = frac_text(t);
                assert(scale as int == 36 - byte_len(f));
                assert(!has_sign(f));
                assert(short_text(f));
                if is_int_numeral(f) {
                    // an unsigned numeral of at most 36 digits is below 10^36: the integer parser cannot overflow
                    lemma_unsigned_numeral(f);
                    lemma_digits_are_ascii(f);
                    lemma_frac_part_bound(f, 36);
                    lemma_ipow10_pos_mono(f.len(), 36);
                    assert(in_i256(int_val(f)));
                }
            }
        @before <<let fractional_subunits =>>
            proof {
                let f = frac_text(t);
                lemma_unsigned_numeral(f);
                lemma_digits_are_ascii(f);
                lemma_frac_part_bound(f, 36);
                assert(scale as nat == (36 - f.len()) as nat);
                assert(fractional_part.v() == dec_val(f));
                assert(in_i256(ipow(10, scale as nat)));
                assert(in_i256(dec_val(f) * ipow(10, scale as nat)));
            }
        @after <<let fractional_subunits =>>
            proof {
                let f = frac_text(t);
                assert(fractional_subunits.v() == dec_val(f) * ipow(10, (36 - f.len()) as nat));
                assert(is_numeral(t, 36));
                assert(v@[0]@ == int_text(t));
                assert((integer_part.v() < 0 || (int_text(t).len() > 0 && int_text(t)[0] == '-')) <==> is_negative_text(t)) by {
                    assert(int_text(t).len() >= 1);
                    assert(int_text(t)[0] == t[0]);
                }
            }
        @*/
    }

    // ==========================================================================================
    // ORACLE-LEVEL round trip (NOT a proof about `impl Display`, whose code goes through core::fmt and is not
    // under contract): every text of the DOCUMENTED printing format of a value x -- "-" iff x < 0, the digits of
    // |x| div 10^S, and, iff |x| mod 10^S != 0, a point followed by 1..=S digits denoting that remainder (the
    // S-digit zero-padded remainder with trailing zeros trimmed is one such digit string) -- is a numeral whose
    // value is x; hence, by the contracts above, `from_str` returns Ok(x) for it whenever x is representable.
    // ==========================================================================================
    pub open spec fn abs_int(x: int) -> int { if x < 0 { -x } else { x } }
    pub open spec fn is_printed_form(t: Seq<char>, x: int, scale: nat, whole: Seq<char>, part: Seq<char>) -> bool {
        let p = ipow(10, scale);
        let sign = if x < 0 { seq!['-'] } else { Seq::<char>::empty() };
        &&& whole.len() >= 1 && all_digits(whole) && dec_val(whole) == abs_int(x) / p
        &&& all_digits(part) && part.len() <= scale
        &&& dec_val(part) * ipow(10, (scale - part.len()) as nat) == abs_int(x) % p
        &&& abs_int(x) % p == 0 ==> part.len() == 0
        &&& t == (if part.len() == 0 { sign + whole } else { sign + whole + seq!['.'] + part })
    }
    pub proof fn lemma_printed_form_denotes_value(t: Seq<char>, x: int, scale: nat, whole: Seq<char>, part: Seq<char>)
        requires is_printed_form(t, x, scale, whole, part)
        ensures is_numeral(t, scale), numeral_value(t, scale) == x
    {
        let p = ipow(10, scale);
        lemma_ipow10_pos_mono(0, scale);
        let sign = if x < 0 { seq!['-'] } else { Seq::<char>::empty() };
        let ip = sign + whole;
        lemma_digits_are_ascii(whole);
        lemma_dec_val_bounds(whole);
        assert(sep_free(ip, '.')) by {
            assert forall|i: int| 0 <= i < ip.len() implies #[trigger] ip[i] != '.' by {
                if i < sign.len() { assert(ip[i] == '-'); } else { assert(ip[i] == whole[i - sign.len()]); }
            }
        }
        assert(is_digit(whole[0]));
        assert(ip[0] == (if x < 0 { '-' } else { whole[0] }));
        assert(has_sign(ip) == (x < 0));
        assert(magnitude_text(ip) =~= whole);
        assert(int_val(ip) == (if x < 0 { -dec_val(whole) } else { dec_val(whole) }));
        let a = abs_int(x);
        assert(a == p * (a / p) + a % p) by { vstd::arithmetic::div_mod::lemma_fundamental_div_mod(a, p); }
        if part.len() == 0 {
            assert(t == ip);
            lemma_dot_pos_prefix(ip, Seq::<char>::empty());
            assert(ip + Seq::<char>::empty() =~= ip);
            assert(t.take(t.len() as int) =~= t);
            assert(dec_val(part) == 0);
            assert(a % p == 0);
            assert(int_val(ip) * p == x) by (nonlinear_arith)
                requires a == p * (a / p), int_val(ip) == (if x < 0 { -(a / p) } else { a / p }), a == (if x < 0 { -x } else { x });
        } else {
            let tail = seq!['.'] + part;
            assert(t =~= ip + tail);
            lemma_dot_pos_prefix(ip, tail);
            assert(t.take(ip.len() as int) =~= ip);
            assert(t.skip(ip.len() as int + 1) =~= part);
            assert(t[0] == ip[0]);
            assert(is_negative_text(t) == (x < 0));
            let r = dec_val(part) * ipow(10, (scale - part.len()) as nat);
            assert(numeral_value(t, scale) == (if x < 0 { int_val(ip) * p - r } else { int_val(ip) * p + r }));
            assert(numeral_value(t, scale) == x) by (nonlinear_arith)
                requires a == p * (a / p) + r, int_val(ip) == (if x < 0 { -(a / p) } else { a / p }), a == (if x < 0 { -x } else { x }),
                    numeral_value(t, scale) == (if x < 0 { int_val(ip) * p - r } else { int_val(ip) * p + r });
        }
    }
    /// the parser, applied to any printed form of a representable x, returns x (Decimal)
    pub fn parse_of_printed_form_decimal(text: &str, Ghost(x): Ghost<int>, Ghost(whole): Ghost<Seq<char>>, Ghost(part): Ghost<Seq<char>>) -> (r: Result<Decimal, ParseDecimalError>)
        requires is_printed_form(text@, x, 18, whole, part), in_i192(x), byte_len(text@) <= u32::MAX
        ensures r matches Ok(d) && d.0.v() == x
    {
        proof { lemma_printed_form_denotes_value(text@, x, 18, whole, part); }
        Decimal::from_str(text)
    }
    /// the parser, applied to any printed form of a representable x, returns x (PreciseDecimal)
    pub fn parse_of_printed_form_precise_decimal(text: &str, Ghost(x): Ghost<int>, Ghost(whole): Ghost<Seq<char>>, Ghost(part): Ghost<Seq<char>>) -> (r: Result<PreciseDecimal, ParsePreciseDecimalError>)
        requires is_printed_form(text@, x, 36, whole, part), in_i256(x), byte_len(text@) <= u32::MAX
        ensures r matches Ok(d) && d.0.v() == x
    {
        proof { lemma_printed_form_denotes_value(text@, x, 36, whole, part); }
        PreciseDecimal::from_str(text)
    }

    // ---- sanity of the oracle on concrete texts (non-vacuity of the definitions above) -------------------
    /// "-0.1" is a printed form of -10^17 at scale 18; so it is a numeral of that value
    pub proof fn lemma_witness_minus_point_one()
        ensures
            is_printed_form(seq!['-', '0', '.', '1'], -100_000_000_000_000_000, 18, seq!['0'], seq!['1']),
            is_numeral(seq!['-', '0', '.', '1'], 18),
            numeral_value(seq!['-', '0', '.', '1'], 18) == -100_000_000_000_000_000,
    {
        let t = seq!['-', '0', '.', '1'];
        let w = seq!['0'];
        let f = seq!['1'];
        reveal_with_fuel(ipow, 20);
        reveal_with_fuel(dec_val, 3);
        assert(w.drop_last() =~= Seq::<char>::empty());
        assert(f.drop_last() =~= Seq::<char>::empty());
        assert(dec_val(w) == 0);
        assert(dec_val(f) == 1);
        assert(ipow(10, 17) == 100_000_000_000_000_000);
        assert(ipow(10, 18) == 1_000_000_000_000_000_000);
        assert(t =~= seq!['-'] + w + seq!['.'] + f);
        assert(is_printed_form(t, -100_000_000_000_000_000, 18, w, f));
        lemma_printed_form_denotes_value(t, -100_000_000_000_000_000, 18, w, f);
    }
    /// the inputs of the defect fixed in /repo commit 5c4b0ece77 ("1.-5" was parsed as 0.95) are NOT numerals
    pub proof fn lemma_witness_sign_in_fraction_is_not_a_numeral()
        ensures !is_numeral(seq!['1', '.', '-', '5'], 18), !is_numeral(seq!['1', '.', '+', '5'], 36)
    {
        let a = seq!['1', '.', '-', '5'];
        let b = seq!['1', '.', '+', '5'];
        reveal_with_fuel(dot_pos, 3);
        assert(a.skip(1)[0] == '.');
        assert(b.skip(1)[0] == '.');
        assert(dot_pos(a) == 1 && dot_pos(b) == 1);
        assert(frac_text(a)[0] == '-');
        assert(frac_text(b)[0] == '+');
        assert(!is_digit('-') && !is_digit('+'));
    }
}
} // verus!
fn main() {}
