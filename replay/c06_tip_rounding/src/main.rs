use radix_common::prelude::*;
use radix_engine::system::system_modules::costing::*;
use radix_engine::transaction::CostingParameters;
use radix_engine_interface::blueprints::resource::LiquidFungibleResource;
use radix_transactions::model::TipSpecifier;
use radix_transactions::prelude::TransactionCostingParameters;

fn main() {
    // price = 3 attos per cost unit, tip = 50%
    let mut cp = CostingParameters::babylon_genesis();
    cp.execution_cost_unit_price = Decimal::from_attos(I192::from(3u32));
    cp.finalization_cost_unit_price = Decimal::from_attos(I192::from(3u32));
    cp.execution_cost_unit_loan = 10;
    let tcp = TransactionCostingParameters { tip: TipSpecifier::Percentage(50), free_credit_in_xrd: Decimal::ZERO };
    let mut r = SystemLoanFeeReserve::new(cp, tcp, false);
    let before = r.fee_balance();
    // lock exactly what the reserve will need
    r.lock_fee(NodeId([1u8; 30]), LiquidFungibleResource::new(Decimal::from_attos(I192::from(1000u32))), false);
    r.consume_execution(7).unwrap();
    r.consume_execution(5).unwrap();
    r.repay_all().unwrap();
    let after = r.fee_balance();
    let (summary, _, _) = r.finalize();
    println!("reserve start balance {:?}", before.attos());
    println!("balance after          {:?}", after.attos());
    println!("exec cost  {:?}", summary.total_execution_cost_in_xrd.attos());
    println!("tip cost   {:?}", summary.total_tipping_cost_in_xrd.attos());
    println!("total_cost {:?}", summary.total_cost().attos());
    // what the reserve deducted for execution: 12 units * eff price
    println!("eff price = trunc(3*1.5)=4 attos -> deducted 48 ; summary total = 36 + trunc(18) = 54");
}
