//! Kani harnesses + replay tests on the real `radix-common` crate (path dependency on /repo).
#![allow(unused)]
use core::str::FromStr;
use radix_common::math::*;
use radix_common::time::*;
include!("../../common/src.rs");

macro_rules! harness {
    ($name:ident, $unwind:expr, $body:ident) => {
        #[cfg(kani)]
        #[kani::proof]
        #[kani::unwind($unwind)]
        fn $name() { $body(&mut KaniSrc) }
    };
}

pub fn run_replay(name: &str, vals: Vec<Vec<u8>>) {
    let mut s = ReplaySrc::new(vals);
    match name {
        "c29_from_str_total" => c29_from_str_total_body(&mut s),
        "l0_i192_add_sub_neg" => l0_i192_add_sub_neg_body(&mut s),
        "l0_i256_add_sub_neg" => l0_i256_add_sub_neg_body(&mut s),
        "l0_i192_cmp_abs_sign" => l0_i192_cmp_abs_sign_body(&mut s),
        "l0_widen_narrow" => l0_widen_narrow_body(&mut s),
        "l0_decimal_constants" => l0_decimal_constants_body(&mut s),
        "c24_decimal_add_sub" => c24_decimal_add_sub_body(&mut s),
        _ => panic!("unknown harness {}", name),
    }
}

/// C29 parser (BOUNDED stand-in: a fixed 16-byte ASCII prefix "2023-01-27T12:17" followed by every
/// 4- or 5-byte tail that makes the whole a valid UTF-8 string of 20 or 21 bytes): from_str returns
/// a date-time or an error and never panics; an accepted date-time has in-range fields.
fn c29_from_str_total_body<S: Src>(s: &mut S) {
    let tail: [u8; 5] = s.bytes::<5>();
    let mut bytes = [0u8; 21];
    let prefix = b"2023-01-27T12:17";
    let mut i = 0;
    while i < 16 { bytes[i] = prefix[i]; i += 1; }
    let mut j = 0;
    while j < 5 { bytes[16 + j] = tail[j]; j += 1; }
    let len = if s.bool() { 20 } else { 21 };
    if let Ok(text) = core::str::from_utf8(&bytes[..len]) {
        if let Ok(dt) = UtcDateTime::from_str(text) {
            assert!(dt.month() >= 1 && dt.month() <= 12);
            assert!(dt.day_of_month() >= 1 && dt.day_of_month() <= 31);
            assert!(dt.hour() <= 23 && dt.minute() <= 59 && dt.second() <= 59);
        }
    }
}
harness!(c29_from_str_total, 24, c29_from_str_total_body);

// ------------------------------------------------------------------------------------------------
// L0: the ASSUMED contracts of shims/bigint.rs that CBMC can decide, stated on the REAL wrappers.
// Reference arithmetic: limb-wise on [u64; N] (little endian two's complement), written here.
// ------------------------------------------------------------------------------------------------
fn limbs_add<const N: usize>(a: [u64; N], b: [u64; N]) -> ([u64; N], bool) {
    // returns (wrapped sum, signed overflow)
    let mut r = [0u64; N];
    let mut carry = 0u64;
    let mut i = 0;
    while i < N {
        let (s1, c1) = a[i].overflowing_add(b[i]);
        let (s2, c2) = s1.overflowing_add(carry);
        r[i] = s2;
        carry = (c1 as u64) + (c2 as u64);
        i += 1;
    }
    let sa = a[N - 1] >> 63; let sb = b[N - 1] >> 63; let sr = r[N - 1] >> 63;
    (r, sa == sb && sr != sa)
}
fn limbs_not<const N: usize>(a: [u64; N]) -> [u64; N] { let mut r = [0u64; N]; let mut i = 0; while i < N { r[i] = !a[i]; i += 1; } r }
fn limbs_one<const N: usize>() -> [u64; N] { let mut r = [0u64; N]; r[0] = 1; r }
fn limbs_is_min<const N: usize>(a: [u64; N]) -> bool { let mut ok = a[N - 1] == 1u64 << 63; let mut i = 0; while i + 1 < N { ok = ok && a[i] == 0; i += 1; } ok }
fn limbs_lt_signed<const N: usize>(a: [u64; N], b: [u64; N]) -> bool {
    let sa = a[N - 1] >> 63; let sb = b[N - 1] >> 63;
    if sa != sb { return sa == 1; }
    let mut i = N;
    while i > 0 { i -= 1; if a[i] != b[i] { return a[i] < b[i]; } }
    false
}
fn any_limbs<S: Src, const N: usize>(s: &mut S) -> [u64; N] { let mut r = [0u64; N]; let mut i = 0; while i < N { r[i] = s.u64(); i += 1; } r }

fn i192(d: [u64; 3]) -> I192 { I192::from_digits(d) }
fn i256(d: [u64; 4]) -> I256 { I256::from_digits(d) }

/// L0 (complete, all 2^384 operand pairs): I192 checked_add / checked_sub / checked_neg equal the
/// two's-complement reference and report None exactly on signed overflow.
fn l0_i192_add_sub_neg_body<S: Src>(s: &mut S) {
    let a: [u64; 3] = any_limbs(s); let b: [u64; 3] = any_limbs(s);
    let (sum, ovf) = limbs_add(a, b);
    match i192(a).checked_add(i192(b)) { Some(r) => { assert!(!ovf); assert!(r == i192(sum)); } None => assert!(ovf) }
    // a - b == a + (!b + 1), overflow computed on the mathematical result
    let (negb, _) = limbs_add(limbs_not(b), limbs_one());
    match i192(b).checked_neg() { Some(r) => { assert!(!limbs_is_min(b)); assert!(r == i192(negb)); } None => assert!(limbs_is_min(b)) }
    let sub = i192(a).checked_sub(i192(b));
    if !limbs_is_min(b) {
        let (d, o) = limbs_add(a, negb);
        match sub { Some(r) => { assert!(!o); assert!(r == i192(d)); } None => assert!(o) }
    } else {
        // a - MIN is representable iff a < 0
        assert!(sub.is_some() == (a[2] >> 63 == 1));
    }
}
harness!(l0_i192_add_sub_neg, 34, l0_i192_add_sub_neg_body);

fn l0_i256_add_sub_neg_body<S: Src>(s: &mut S) {
    let a: [u64; 4] = any_limbs(s); let b: [u64; 4] = any_limbs(s);
    let (sum, ovf) = limbs_add(a, b);
    match i256(a).checked_add(i256(b)) { Some(r) => { assert!(!ovf); assert!(r == i256(sum)); } None => assert!(ovf) }
    let (negb, _) = limbs_add(limbs_not(b), limbs_one());
    match i256(b).checked_neg() { Some(r) => { assert!(!limbs_is_min(b)); assert!(r == i256(negb)); } None => assert!(limbs_is_min(b)) }
    let sub = i256(a).checked_sub(i256(b));
    if !limbs_is_min(b) {
        let (d, o) = limbs_add(a, negb);
        match sub { Some(r) => { assert!(!o); assert!(r == i256(d)); } None => assert!(o) }
    } else {
        assert!(sub.is_some() == (a[3] >> 63 == 1));
    }
}
harness!(l0_i256_add_sub_neg, 34, l0_i256_add_sub_neg_body);

/// L0 (complete): ordering, equality, sign tests and abs of I192 agree with the signed reference.
fn l0_i192_cmp_abs_sign_body<S: Src>(s: &mut S) {
    let a: [u64; 3] = any_limbs(s); let b: [u64; 3] = any_limbs(s);
    let (x, y) = (i192(a), i192(b));
    assert!((x < y) == limbs_lt_signed(a, b));
    assert!((x == y) == (a == b));
    assert!((x.cmp(&y) == core::cmp::Ordering::Less) == limbs_lt_signed(a, b));
    assert!((x.cmp(&y) == core::cmp::Ordering::Equal) == (a == b));
    assert!(x.is_negative() == (a[2] >> 63 == 1));
    assert!(x.is_positive() == (a[2] >> 63 == 0 && a != [0, 0, 0]));
    assert!((x == I192::ZERO) == (a == [0, 0, 0]));
    if !limbs_is_min(a) {
        let (nega, _) = limbs_add(limbs_not(a), limbs_one());
        let expect = if a[2] >> 63 == 1 { nega } else { a };
        assert!(x.abs() == i192(expect));
    }
    assert!(I192::MIN == i192([0, 0, 1u64 << 63]));
    assert!(I192::MAX == i192([u64::MAX, u64::MAX, u64::MAX >> 1]));
    assert!(I192::ONE == i192([1, 0, 0]) && I192::TEN == i192([10, 0, 0]));
}
harness!(l0_i192_cmp_abs_sign, 34, l0_i192_cmp_abs_sign_body);

/// L0 (complete): I192 -> I256 widening is sign extension; I256 -> I192 narrowing returns the low
/// 192 bits when it succeeds, and succeeds exactly when the value is a sign extension of its low 192
/// bits AND is not -2^191 (the real code rejects the most negative value: known finding C24).
fn l0_widen_narrow_body<S: Src>(s: &mut S) {
    let a: [u64; 3] = any_limbs(s);
    let ext = if a[2] >> 63 == 1 { u64::MAX } else { 0 };
    assert!(I256::from(i192(a)) == i256([a[0], a[1], a[2], ext]));
    let w: [u64; 4] = any_limbs(s);
    let is_min192 = w == [0, 0, 1u64 << 63, u64::MAX];
    let fits = ((w[3] == 0 && w[2] >> 63 == 0) || (w[3] == u64::MAX && w[2] >> 63 == 1)) && !is_min192;
    match I192::try_from(i256(w)) { Ok(r) => { assert!(fits); assert!(r == i192([w[0], w[1], w[2]])); } Err(_) => assert!(!fits) }
}
harness!(l0_widen_narrow, 34, l0_widen_narrow_body);

/// L0 (complete, no input): the constants assumed by the Decimal units.
fn l0_decimal_constants_body<S: Src>(_s: &mut S) {
    assert!(Decimal::ONE.attos() == i192([1_000_000_000_000_000_000, 0, 0]));
    assert!(Decimal::ZERO.attos() == I192::ZERO);
    assert!(Decimal::MIN.attos() == I192::MIN && Decimal::MAX.attos() == I192::MAX);
    assert!(Decimal::ONE_HUNDRED.attos() == i192([7766279631452241920, 5, 0]));
    assert!(Decimal::TEN.attos() == i192([10_000_000_000_000_000_000, 0, 0]));
}
harness!(l0_decimal_constants, 34, l0_decimal_constants_body);

/// C24 pair (complete): Decimal checked_add / checked_sub on the real type are exact or None.
fn c24_decimal_add_sub_body<S: Src>(s: &mut S) {
    let a: [u64; 3] = any_limbs(s); let b: [u64; 3] = any_limbs(s);
    let (x, y) = (Decimal::from_attos(i192(a)), Decimal::from_attos(i192(b)));
    let (sum, ovf) = limbs_add(a, b);
    match x.checked_add(y) { Some(r) => { assert!(!ovf); assert!(r.attos() == i192(sum)); } None => assert!(ovf) }
    if !limbs_is_min(b) {
        let (negb, _) = limbs_add(limbs_not(b), limbs_one());
        let (d, o) = limbs_add(a, negb);
        match x.checked_sub(y) { Some(r) => { assert!(!o); assert!(r.attos() == i192(d)); } None => assert!(o) }
    }
}
harness!(c24_decimal_add_sub, 34, c24_decimal_add_sub_body);

#[cfg(all(test, not(kani)))]
mod finding_tests {
    use super::*;
    /// the concrete input of the C29 finding: 20 chars, 21 bytes (non-ASCII second digit of seconds)
    /// C24 known finding (replay on the real crate): products/quotients equal to the most negative
    /// value are representable but reported as overflow, because the I256 -> I192 narrowing rejects -2^191.
    #[test]
    fn c24_finding_min_times_one_is_reported_as_overflow() {
        use radix_common::math::*;
        println!("Decimal::MIN.checked_mul(Decimal::ONE) = {:?}", Decimal::MIN.checked_mul(Decimal::ONE));
        println!("Decimal::MIN.checked_div(Decimal::ONE) = {:?}", Decimal::MIN.checked_div(Decimal::ONE));
        println!("PreciseDecimal::MIN.checked_mul(PreciseDecimal::ONE) = {:?}", PreciseDecimal::MIN.checked_mul(PreciseDecimal::ONE));
        println!("I192::try_from(I256::from(I192::MIN)) is_ok = {}", I192::try_from(I256::from(I192::MIN)).is_ok());
        // the finding is present exactly when this assertion FAILS
        assert_eq!(Decimal::MIN.checked_mul(Decimal::ONE), Some(Decimal::MIN), "FINDING-PRESENT: MIN * 1 reported as overflow");
    }

    /// C27 fixed finding (regression replay on the real crate): a sign inside the fractional part is not a numeral
    #[test]
    fn c27_from_str_rejects_sign_in_fraction() {
        use core::str::FromStr;
        for t in ["1.-5", "1.+5", "-1.-5", "0.-0", "0.+0"] {
            assert!(Decimal::from_str(t).is_err(), "Decimal::from_str({:?}) accepted: {:?}", t, Decimal::from_str(t));
            assert!(PreciseDecimal::from_str(t).is_err(), "PreciseDecimal::from_str({:?}) accepted", t);
        }
        assert_eq!(Decimal::from_str("+1.5").unwrap(), Decimal::from_str("1.5").unwrap());
        assert_eq!(Decimal::from_str("-0.5").unwrap().checked_neg().unwrap(), Decimal::from_str("0.5").unwrap());
    }

    #[test]
    fn c27_probe_sign_in_fraction() {
        use core::str::FromStr;
        for t in ["1.-5", "1.+5", "-1.-5", "0.-0", "+1.5", "1.5", "-0.5", "1.000000000000000000", "1.0000000000000000000", "1.", ".5", "1.+", "--1", "1e3"] {
            println!("{:?} -> {:?}", t, Decimal::from_str(t).map(|d| d.to_string()));
        }
    }

    #[test]
    fn c29_from_str_non_ascii_does_not_panic() {
        let r = std::panic::catch_unwind(|| UtcDateTime::from_str("2023-01-27T12:17:2\u{e9}Z").is_ok());
        assert!(matches!(r, Ok(false)), "UtcDateTime::from_str panicked or accepted a non-ASCII date-time");
    }
}
