//! Kani harnesses on the real `radix-engine-interface` crate: BOUNDED stand-ins for the resource
//! containers (C10 / C03), used when a structural rewrite takes a function out of Verus' reach.
#![allow(unused)]
use radix_common::math::*;
use radix_engine_interface::blueprints::resource::*;
include!("../../common/src.rs");

macro_rules! harness {
    ($name:ident, $unwind:expr, $body:ident) => {
        #[cfg(kani)]
        #[kani::proof]
        #[kani::unwind($unwind)]
        fn $name() { $body(&mut KaniSrc) }
    };
}

pub fn run_replay(name: &str, vals: Vec<Vec<u8>>) {
    let mut s = ReplaySrc::new(vals);
    match name {
        "c10_locked_amount_is_max" => c10_locked_amount_is_max_body(&mut s),
        _ => panic!("unknown harness {}", name),
    }
}

/// C10 (BOUNDED: at most 3 lock entries with small distinct amounts, every insertion order, then
/// optionally one swap_remove): LockedFungibleResource::amount() is the maximum locked amount.
fn c10_locked_amount_is_max_body<S: Src>(s: &mut S) {
    let a = s.u8(); let b = s.u8(); let c = s.u8();
    s.assume(a != b && b != c && a != c && a < 8 && b < 8 && c < 8);
    let n = s.u8(); s.assume(n <= 3);
    let mut l = LockedFungibleResource::default();
    let keys = [a, b, c];
    let mut i = 0usize;
    let mut max = 0u8;
    while i < n as usize {
        l.amounts.insert(Decimal::from(keys[i]), 1usize);
        if keys[i] > max { max = keys[i]; }
        i += 1;
    }
    assert!(l.amount() == Decimal::from(max));
    if n == 3 && s.bool() {
        // drop the first lock: IndexMap::swap_remove moves the last entry into its place
        l.amounts.swap_remove(&Decimal::from(a));
        let m2 = if b > c { b } else { c };
        assert!(l.amount() == Decimal::from(m2));
    }
}
harness!(c10_locked_amount_is_max, 8, c10_locked_amount_is_max_body);
