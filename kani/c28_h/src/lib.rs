//! Kani harnesses + replay tests for property C28 (non-fungible local ids: text and binary forms) on
//! the real `radix-common` crate (path dependency on /repo). Only the PUBLIC API is used (no hooks).
//! Every harness here is a BOUNDED stand-in unless its doc comment says "complete".
#![allow(unused)]
use core::str::FromStr;
use radix_common::data::scrypto::model::*;
use radix_common::data::scrypto::*;
use sbor::*;
include!("../../common/src.rs");

macro_rules! harness {
    ($name:ident, $unwind:expr, $body:ident) => {
        #[cfg(kani)]
        #[kani::proof]
        #[kani::unwind($unwind)]
        fn $name() { $body(&mut KaniSrc) }
    };
}

pub fn run_replay(name: &str, vals: Vec<Vec<u8>>) {
    let mut s = ReplaySrc::new(vals);
    match name {
        "c28_from_str_integer" => c28_from_str_integer_body(&mut s),
        "c28_from_str_string" => c28_from_str_string_body(&mut s),
        "c28_from_str_bytes" => c28_from_str_bytes_body(&mut s),
        "c28_from_str_non_ascii_string" => c28_from_str_non_ascii_string_body(&mut s),
        "c28_from_str_non_ascii_integer" => c28_from_str_non_ascii_integer_body(&mut s),
        "c28_from_str_non_ascii_bytes" => c28_from_str_non_ascii_bytes_body(&mut s),
        "c28_from_str_edge_texts" => c28_from_str_edge_texts_body(&mut s),
        "c28_integer_text_20_digits" => c28_integer_text_20_digits_body(&mut s),
        "c28_binary_roundtrip_integer" => c28_binary_roundtrip_integer_body(&mut s),
        "c28_binary_roundtrip_ruid" => c28_binary_roundtrip_ruid_body(&mut s),
        "c28_binary_decode_total" => c28_binary_decode_total_body(&mut s),
        "c28_constructors_bytes" => c28_constructors_bytes_body(&mut s),
        _ => panic!("unknown harness {}", name),
    }
}

/// ASCII bytes are valid UTF-8 (each is a one-byte scalar), so the std validator -- very expensive for
/// CBMC on symbolic input -- is skipped when the harness has ASSUMED every byte < 0x80.
fn ascii_str(b: &[u8]) -> &str {
    let mut i = 0;
    while i < b.len() { assert!(b[i] < 0x80); i += 1; }
    unsafe { core::str::from_utf8_unchecked(b) }
}

// ---- reference grammar (written from the property / the doc comments, not from the parser) --------
fn ok_byte(b: u8) -> bool { b.is_ascii_alphanumeric() || b == b'_' }
fn is_digit(b: u8) -> bool { b >= b'0' && b <= b'9' }
fn hex_val(b: u8) -> Option<u8> {
    match b { b'0'..=b'9' => Some(b - b'0'), b'a'..=b'f' => Some(b - b'a' + 10), b'A'..=b'F' => Some(b - b'A' + 10), _ => None }
}
/// canonical decimal: non-empty, digits only, no redundant leading zero
fn canonical_decimal(d: &[u8]) -> bool {
    if d.is_empty() { return false; }
    let mut i = 0;
    while i < d.len() { if !is_digit(d[i]) { return false; } i += 1; }
    d.len() == 1 || d[0] != b'0'
}
fn decimal_value(d: &[u8]) -> u128 {
    let mut v: u128 = 0; let mut i = 0;
    while i < d.len() { v = v * 10 + (d[i] - b'0') as u128; i += 1; }
    v
}
fn all_ok_bytes(d: &[u8]) -> bool { let mut i = 0; while i < d.len() { if !ok_byte(d[i]) { return false; } i += 1; } true }
fn all_hex(d: &[u8]) -> bool { let mut i = 0; while i < d.len() { if hex_val(d[i]).is_none() { return false; } i += 1; } true }

/// shared check: `from_str(text)` is Ok EXACTLY on the texts of the id grammar (`<[_0-9a-zA-Z]+>`,
/// `#canonical decimal#`, `[hex pairs]`; a RUID text needs 69 bytes and is out of every bound used here)
/// and returns the id the text denotes. `b` are the bytes of `text`.
fn check_from_str(b: &[u8], text: &str) {
    let len = b.len();
    let r = NonFungibleLocalId::from_str(text);
    let bracketed = len >= 2;
    let (first, last) = if bracketed { (b[0], b[len - 1]) } else { (0, 0) };
    let inner: &[u8] = if bracketed { &b[1..len - 1] } else { &b[0..0] };
    let is_string = bracketed && first == b'<' && last == b'>' && !inner.is_empty() && all_ok_bytes(inner);
    let is_integer = bracketed && first == b'#' && last == b'#' && canonical_decimal(inner);
    let is_bytes = bracketed && first == b'[' && last == b']' && !inner.is_empty() && inner.len() % 2 == 0 && all_hex(inner);
    match r {
        Ok(NonFungibleLocalId::String(v)) => { assert!(is_string); assert!(v.value().as_bytes() == inner); }
        Ok(NonFungibleLocalId::Integer(v)) => { assert!(is_integer); assert!(v.value() as u128 == decimal_value(inner)); }
        Ok(NonFungibleLocalId::Bytes(v)) => {
            assert!(is_bytes);
            assert!(v.value().len() == inner.len() / 2);
            let mut i = 0;
            while i < v.value().len() {
                assert!(v.value()[i] == (hex_val(inner[2 * i]).unwrap() << 4 | hex_val(inner[2 * i + 1]).unwrap()));
                i += 1;
            }
        }
        Ok(NonFungibleLocalId::RUID(_)) => assert!(false),
        Err(e) => {
            assert!(!is_string && !is_integer && !is_bytes);
            if bracketed && first == b'#' && last == b'#' { assert!(e == ParseNonFungibleLocalIdError::InvalidInteger); }
        }
    }
}

fn bracketed_body<S: Src, const N: usize>(s: &mut S, open: u8, close: u8) {
    // text = open + (n <= N arbitrary ASCII bytes) + close
    let d: [u8; N] = s.bytes::<N>();
    let n = s.u8() as usize;
    s.assume(n <= N);
    let mut t = [close; 8];
    t[0] = open;
    let mut j = 0;
    while j < n { s.assume(d[j] < 0x80); t[1 + j] = d[j]; j += 1; }
    check_from_str(&t[..n + 2], ascii_str(&t[..n + 2]));
}
/// C28 integer text, BOUNDED: `#` + any 0..=3 ASCII bytes + `#`: accepted iff the inner text is canonical
/// decimal ("+1", "01", " 1", "1 ", "" are all InvalidInteger) and then denotes its value; never panics.
fn c28_from_str_integer_body<S: Src>(s: &mut S) { bracketed_body::<S, 3>(s, b'#', b'#') }
harness!(c28_from_str_integer, 6, c28_from_str_integer_body);
/// C28 string text, BOUNDED: `<` + any 0..=3 ASCII bytes + `>`: accepted iff the inner text is 1..=3
/// characters of `[_0-9a-zA-Z]`; never panics.
fn c28_from_str_string_body<S: Src>(s: &mut S) { bracketed_body::<S, 3>(s, b'<', b'>') }
harness!(c28_from_str_string, 6, c28_from_str_string_body);
/// C28 bytes text, BOUNDED: `[` + exactly 2 arbitrary ASCII bytes + `]`: accepted iff the two characters are a
/// hex pair (either case), denoting that byte; never panics. (Symbolic inner LENGTH 0..=4 verifies in 364 s and
/// 0..=2 in 143 s of CBMC time under plain `cargo kani`, but neither fits `timeout 600 tools/kani_run.py` reliably
/// on the loaded build machine, so the length is concrete here.)
fn c28_from_str_bytes_body<S: Src>(s: &mut S) {
    let d: [u8; 2] = s.bytes::<2>();
    s.assume(d[0] < 0x80 && d[1] < 0x80);
    let t = [b'[', d[0], d[1], b']'];
    check_from_str(&t, ascii_str(&t));
}
harness!(c28_from_str_bytes, 6, c28_from_str_bytes_body);



/// non-ASCII inner text between CONCRETE brackets: `open c close` with c any two-byte UTF-8 character
/// (U+0080..U+07FF, valid by construction so the std validator is not needed)
fn non_ascii_inner_body<S: Src>(s: &mut S, open: u8, close: u8) {
    let lead = s.u8(); let cont = s.u8();
    s.assume(0xC2 <= lead && lead <= 0xDF && 0x80 <= cont && cont <= 0xBF);
    let t = [open, lead, cont, close];
    assert!(NonFungibleLocalId::from_str(unsafe { core::str::from_utf8_unchecked(&t) }).is_err());
}
/// C28 text parser and NON-ASCII text, BOUNDED: `<c>` with c any two-byte character is rejected without a panic
fn c28_from_str_non_ascii_string_body<S: Src>(s: &mut S) { non_ascii_inner_body(s, b'<', b'>') }
harness!(c28_from_str_non_ascii_string, 6, c28_from_str_non_ascii_string_body);
/// C28 text parser and NON-ASCII text, BOUNDED: `#c#` with c any two-byte character is rejected without a panic
fn c28_from_str_non_ascii_integer_body<S: Src>(s: &mut S) { non_ascii_inner_body(s, b'#', b'#') }
harness!(c28_from_str_non_ascii_integer, 6, c28_from_str_non_ascii_integer_body);
/// C28 text parser and NON-ASCII text, BOUNDED: `[c]` with c any two-byte character is rejected without a panic
fn c28_from_str_non_ascii_bytes_body<S: Src>(s: &mut S) { non_ascii_inner_body(s, b'[', b']') }
harness!(c28_from_str_non_ascii_bytes, 6, c28_from_str_non_ascii_bytes_body);

/// C28 text parser, FIXED INPUTS (no symbolic data): texts without a matching bracket pair are UnknownType
fn c28_from_str_edge_texts_body<S: Src>(_s: &mut S) {
    let texts = ["", "#", "<", ">", "[", "{", "}", "<#", "#>", "{]"];
    let mut i = 0;
    while i < texts.len() {
        assert!(NonFungibleLocalId::from_str(texts[i]) == Err(ParseNonFungibleLocalIdError::UnknownType));
        i += 1;
    }
}
harness!(c28_from_str_edge_texts, 12, c28_from_str_edge_texts_body);

/// C28 integer text, BOUNDED to exactly 20 decimal digits with a non-zero first digit (the only length
/// at which u64 overflow can happen): `#d1..d20#` is accepted iff its value fits u64, and then denotes it.
fn c28_integer_text_20_digits_body<S: Src>(s: &mut S) {
    let d: [u8; 20] = s.bytes::<20>();
    let mut i = 0;
    while i < 20 { s.assume(is_digit(d[i])); i += 1; }
    s.assume(d[0] != b'0');
    let mut t = [b'#'; 22];
    let mut j = 0;
    while j < 20 { t[1 + j] = d[j]; j += 1; }
    let text = ascii_str(&t);
    let v = decimal_value(&d);
    match NonFungibleLocalId::from_str(text) {
        Ok(NonFungibleLocalId::Integer(x)) => { assert!(v <= u64::MAX as u128); assert!(x.value() as u128 == v); }
        Ok(_) => assert!(false),
        Err(e) => { assert!(v > u64::MAX as u128); assert!(e == ParseNonFungibleLocalIdError::InvalidInteger); }
    }
}
harness!(c28_integer_text_20_digits, 24, c28_integer_text_20_digits_body);

/// C28 text round trip, integer ids (BOUNDED: values < 1000): Display then FromStr gives the id back.
fn c28_text_roundtrip_integer_body<S: Src>(s: &mut S) {
    let v = s.u64();
    s.assume(v < 1000);
    let id = NonFungibleLocalId::integer(v);
    let text = id.to_string();
    assert!(NonFungibleLocalId::from_str(&text) == Ok(id));
}
// NOT a Kani harness: `Display` goes through core::fmt; CBMC did not finish within 900 s even at this bound (dropped).
// The body is kept for the plain `cargo test` sample run below.

/// C28 text round trip, string ids (BOUNDED: 1..=2 characters of the allowed alphabet)
fn c28_text_roundtrip_string_body<S: Src>(s: &mut S) {
    let d: [u8; 2] = s.bytes::<2>();
    let n = s.u8() as usize;
    s.assume(1 <= n && n <= 2);
    let mut i = 0;
    while i < n { s.assume(ok_byte(d[i])); i += 1; }
    let id = NonFungibleLocalId::string(ascii_str(&d[..n])).unwrap();
    let text = id.to_string();
    assert!(NonFungibleLocalId::from_str(&text) == Ok(id));
}
// NOT a Kani harness: `Display` goes through core::fmt; CBMC did not finish within 900 s even at this bound (dropped).
// The body is kept for the plain `cargo test` sample run below.

/// C28 text round trip, bytes ids (BOUNDED: 1..=2 arbitrary bytes)
fn c28_text_roundtrip_bytes_body<S: Src>(s: &mut S) {
    let d: [u8; 2] = s.bytes::<2>();
    let n = s.u8() as usize;
    s.assume(1 <= n && n <= 2);
    let id = NonFungibleLocalId::bytes(d[..n].to_vec()).unwrap();
    let text = id.to_string();
    assert!(NonFungibleLocalId::from_str(&text) == Ok(id));
}
// NOT a Kani harness: `Display` goes through core::fmt; CBMC did not finish within 900 s even at this bound (dropped).
// The body is kept for the plain `cargo test` sample run below.

/// C28 text round trip, RUID ids (all 32 bytes symbolic: complete for this variant if it terminates)
fn c28_text_roundtrip_ruid_body<S: Src>(s: &mut S) {
    let d: [u8; 32] = s.bytes::<32>();
    let id = NonFungibleLocalId::ruid(d);
    let text = id.to_string();
    assert!(NonFungibleLocalId::from_str(&text) == Ok(id));
}
// NOT a Kani harness: `Display` goes through core::fmt; CBMC did not finish within 900 s even at this bound (dropped).
// The body is kept for the plain `cargo test` sample run below.

fn check_binary_roundtrip(id: NonFungibleLocalId) {
    let enc = id.to_vec();
    let mut dec = ScryptoDecoder::new(&enc, 1);
    let back = NonFungibleLocalId::decode_body_common(&mut dec);
    assert!(back == Ok(id));
    assert!(dec.check_end().is_ok());
}
/// C28 binary round trip, string ids (BOUNDED: 1 or 2 characters of the alphabet, each length concrete):
/// `to_vec` then `decode_body_common` returns the same id and consumes exactly the encoding.
fn c28_binary_roundtrip_string_body<S: Src>(s: &mut S) {
    let d: [u8; 2] = s.bytes::<2>();
    s.assume(ok_byte(d[0]) && ok_byte(d[1]));
    check_binary_roundtrip(NonFungibleLocalId::string(ascii_str(&d[..1])).unwrap());
    check_binary_roundtrip(NonFungibleLocalId::string(ascii_str(&d)).unwrap());
}
// NOT a Kani harness: CBMC did not finish within 900 s (heap-allocated payload of symbolic content); the round trip for
// these variants is PROVED for all lengths in the Verus unit c28_local_ids. Body kept for the plain `cargo test` sample run.
/// C28 binary round trip, integer ids (complete for this variant: every u64)
fn c28_binary_roundtrip_integer_body<S: Src>(s: &mut S) { check_binary_roundtrip(NonFungibleLocalId::integer(s.u64())); }
harness!(c28_binary_roundtrip_integer, 10, c28_binary_roundtrip_integer_body);
/// C28 binary round trip, bytes ids (BOUNDED: 1, 2 or 3 arbitrary bytes, each length tried as a concrete length)
fn c28_binary_roundtrip_bytes_body<S: Src>(s: &mut S) {
    let d: [u8; 3] = s.bytes::<3>();
    check_binary_roundtrip(NonFungibleLocalId::bytes(d[..1].to_vec()).unwrap());
    check_binary_roundtrip(NonFungibleLocalId::bytes(d[..2].to_vec()).unwrap());
    check_binary_roundtrip(NonFungibleLocalId::bytes(d.to_vec()).unwrap());
}
// NOT a Kani harness: CBMC did not finish within 900 s (heap-allocated payload of symbolic content); the round trip for
// these variants is PROVED for all lengths in the Verus unit c28_local_ids. Body kept for the plain `cargo test` sample run.
/// C28 binary round trip, RUID ids (complete for this variant: all 32 bytes symbolic)
fn c28_binary_roundtrip_ruid_body<S: Src>(s: &mut S) { check_binary_roundtrip(NonFungibleLocalId::ruid(s.bytes::<32>())); }
harness!(c28_binary_roundtrip_ruid, 34, c28_binary_roundtrip_ruid_body);

/// C28 binary decoder (BOUNDED: every input of <= 3 bytes): `decode_body_common` never panics; an
/// accepted input denotes a VALID id whose own encoding is exactly the consumed prefix (unique encoding).
fn c28_binary_decode_total_body<S: Src>(s: &mut S) {
    let b: [u8; 3] = s.bytes::<3>();
    let len = s.u8() as usize;
    s.assume(len <= 3);
    let mut dec = ScryptoDecoder::new(&b[..len], 1);
    if let Ok(id) = NonFungibleLocalId::decode_body_common(&mut dec) {
        match &id {
            NonFungibleLocalId::String(v) => { assert!(1 <= v.value().len() && v.value().len() <= 64); assert!(all_ok_bytes(v.as_bytes())); }
            NonFungibleLocalId::Bytes(v) => assert!(1 <= v.value().len() && v.value().len() <= 64),
            _ => assert!(false), // integer needs 9 bytes, RUID 33
        }
        let consumed = dec.get_offset();
        let enc = id.to_vec();
        assert!(enc.len() == consumed);
        let mut i = 0;
        while i < consumed { assert!(enc[i] == b[i]); i += 1; }
    }
}
harness!(c28_binary_decode_total, 5, c28_binary_decode_total_body);

/// C28 constructors (BOUNDED: lengths 0..=66 with symbolic content would be too wide for CBMC; here the
/// LENGTH is symbolic in 0..=66 and the content is zero bytes): `NonFungibleLocalId::bytes` is Ok iff 1 <= len <= 64.
fn c28_constructors_bytes_body<S: Src>(s: &mut S) {
    let n = s.u8() as usize;
    s.assume(n <= 66);
    let v = vec![0u8; n];
    match NonFungibleLocalId::bytes(v) {
        Ok(id) => assert!(1 <= n && n <= 64),
        Err(e) => assert!((n == 0 && e == ContentValidationError::Empty) || (n > 64 && e == ContentValidationError::TooLong)),
    }
}
harness!(c28_constructors_bytes, 70, c28_constructors_bytes_body);

#[cfg(all(test, not(kani)))]
mod concrete_tests {
    use super::*;
    const ALPHABET: [u8; 18] = [b'#', b'<', b'>', b'[', b']', b'{', b'}', b'0', b'1', b'9', b'a', b'F', b'g', b'_', b'+', b' ', 0xC3, 0xA9];
    /// plain `cargo test` sanity run of the harness bodies (same code Kani verifies) over a sample alphabet:
    /// the reference grammar in this file agrees with the real parser on every sampled input
    #[test]
    fn harness_bodies_hold_on_sample_inputs() {
        let mut runs = 0u32;
        for &a in &ALPHABET { for &b in &ALPHABET { for &c in &ALPHABET {
            for len in 0..=3u8 {
                if a < 0x80 && b < 0x80 && c < 0x80 {
                    c28_from_str_integer_body(&mut ReplaySrc::new(vec![vec![a], vec![b], vec![c], vec![len]]));
                    c28_from_str_string_body(&mut ReplaySrc::new(vec![vec![a], vec![b], vec![c], vec![len]]));
                }
                c28_binary_decode_total_body(&mut ReplaySrc::new(vec![vec![a % 4], vec![len % 3], vec![c], vec![3]]));
                runs += 4;
            }
            if a < 0x80 && b < 0x80 {
                c28_from_str_bytes_body(&mut ReplaySrc::new(vec![vec![a], vec![b]]));
                runs += 1;
            }
        } } }
        for lead in [0xC2u8, 0xC3, 0xDF] { for cont in [0x80u8, 0xA9, 0xBF] {
            c28_from_str_non_ascii_string_body(&mut ReplaySrc::new(vec![vec![lead], vec![cont]]));
            c28_from_str_non_ascii_integer_body(&mut ReplaySrc::new(vec![vec![lead], vec![cont]]));
            c28_from_str_non_ascii_bytes_body(&mut ReplaySrc::new(vec![vec![lead], vec![cont]]));
        } }
        c28_from_str_edge_texts_body(&mut ReplaySrc::new(vec![]));
        for v in [0u64, 1, 9, 10, 99, 100, 999] {
            c28_text_roundtrip_integer_body(&mut ReplaySrc::new(vec![v.to_le_bytes().to_vec()]));
            c28_binary_roundtrip_integer_body(&mut ReplaySrc::new(vec![v.to_le_bytes().to_vec()]));
        }
        c28_binary_roundtrip_integer_body(&mut ReplaySrc::new(vec![u64::MAX.to_le_bytes().to_vec()]));
        for &a in &[b'a', b'Z', b'_', b'0'] { for n in 1..=2u8 {
            c28_text_roundtrip_string_body(&mut ReplaySrc::new(vec![vec![a], vec![b'q'], vec![n]]));
            c28_binary_roundtrip_string_body(&mut ReplaySrc::new(vec![vec![a], vec![b'q'], vec![n]]));
            c28_text_roundtrip_bytes_body(&mut ReplaySrc::new(vec![vec![a], vec![0xff], vec![n]]));
            c28_binary_roundtrip_bytes_body(&mut ReplaySrc::new(vec![vec![a], vec![0xff], vec![n]]));
        } }
        let ruid: Vec<Vec<u8>> = (0..32u8).map(|i| vec![i.wrapping_mul(37)]).collect();
        c28_text_roundtrip_ruid_body(&mut ReplaySrc::new(ruid.clone()));
        c28_binary_roundtrip_ruid_body(&mut ReplaySrc::new(ruid));
        // the u64 boundary: 18446744073709551615 accepted, 18446744073709551616 rejected
        for digits in ["18446744073709551615", "18446744073709551616", "99999999999999999999", "10000000000000000000"] {
            c28_integer_text_20_digits_body(&mut ReplaySrc::new(digits.bytes().map(|b| vec![b]).collect()));
        }
        for n in [0u8, 1, 64, 65, 66] { c28_constructors_bytes_body(&mut ReplaySrc::new(vec![vec![n]])); }
        println!("sample runs: {}", runs);
    }
}
