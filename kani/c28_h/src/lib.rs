//! Kani harnesses + replay tests for property C28 (non-fungible local ids: text and binary forms) on
//! the real `radix-common` crate (path dependency on /repo). Only the PUBLIC API is used (no hooks).
//! Every harness here is a BOUNDED stand-in unless its doc comment says "complete".
#![allow(unused)]
use core::str::FromStr;
use radix_common::data::scrypto::model::*;
use radix_common::data::scrypto::*;
use sbor::*;
include!("../../common/src.rs");

macro_rules! harness {
    ($name:ident, $unwind:expr, $body:ident) => {
        #[cfg(kani)]
        #[kani::proof]
        #[kani::unwind($unwind)]
        fn $name() { $body(&mut KaniSrc) }
    };
}

pub fn run_replay(name: &str, vals: Vec<Vec<u8>>) {
    let mut s = ReplaySrc::new(vals);
    match name {
        "c28_from_str_len6" => c28_from_str_len6_body(&mut s),
        "c28_integer_text_20_digits" => c28_integer_text_20_digits_body(&mut s),
        "c28_integer_text_noncanonical" => c28_integer_text_noncanonical_body(&mut s),
        "c28_text_roundtrip_integer" => c28_text_roundtrip_integer_body(&mut s),
        "c28_text_roundtrip_string" => c28_text_roundtrip_string_body(&mut s),
        "c28_text_roundtrip_bytes" => c28_text_roundtrip_bytes_body(&mut s),
        "c28_text_roundtrip_ruid" => c28_text_roundtrip_ruid_body(&mut s),
        "c28_binary_roundtrip" => c28_binary_roundtrip_body(&mut s),
        "c28_binary_decode_total" => c28_binary_decode_total_body(&mut s),
        "c28_constructors_bytes" => c28_constructors_bytes_body(&mut s),
        _ => panic!("unknown harness {}", name),
    }
}

// ---- reference grammar (written from the property / the doc comments, not from the parser) --------
fn ok_byte(b: u8) -> bool { b.is_ascii_alphanumeric() || b == b'_' }
fn is_digit(b: u8) -> bool { b >= b'0' && b <= b'9' }
fn hex_val(b: u8) -> Option<u8> {
    match b { b'0'..=b'9' => Some(b - b'0'), b'a'..=b'f' => Some(b - b'a' + 10), b'A'..=b'F' => Some(b - b'A' + 10), _ => None }
}
/// canonical decimal: non-empty, digits only, no redundant leading zero
fn canonical_decimal(d: &[u8]) -> bool {
    if d.is_empty() { return false; }
    let mut i = 0;
    while i < d.len() { if !is_digit(d[i]) { return false; } i += 1; }
    d.len() == 1 || d[0] != b'0'
}
fn decimal_value(d: &[u8]) -> u128 {
    let mut v: u128 = 0; let mut i = 0;
    while i < d.len() { v = v * 10 + (d[i] - b'0') as u128; i += 1; }
    v
}
fn all_ok_bytes(d: &[u8]) -> bool { let mut i = 0; while i < d.len() { if !ok_byte(d[i]) { return false; } i += 1; } true }
fn all_hex(d: &[u8]) -> bool { let mut i = 0; while i < d.len() { if hex_val(d[i]).is_none() { return false; } i += 1; } true }

/// C28 text parser, BOUNDED: every byte string of length <= 6 that is valid UTF-8.
/// `NonFungibleLocalId::from_str` never panics, and is Ok EXACTLY on the texts of the id grammar
/// (`<[_0-9a-zA-Z]+>`, `#canonical decimal#`, `[hex pairs]`; a RUID text needs 69 bytes), returning
/// the id that the text denotes.
fn c28_from_str_len6_body<S: Src>(s: &mut S) {
    let b: [u8; 6] = s.bytes::<6>();
    let len = s.u8() as usize;
    s.assume(len <= 6);
    if let Ok(text) = core::str::from_utf8(&b[..len]) {
        let r = NonFungibleLocalId::from_str(text);
        let bracketed = len >= 2;
        let (first, last) = if bracketed { (b[0], b[len - 1]) } else { (0, 0) };
        let inner: &[u8] = if bracketed { &b[1..len - 1] } else { &b[0..0] };
        let is_string = bracketed && first == b'<' && last == b'>' && !inner.is_empty() && all_ok_bytes(inner);
        let is_integer = bracketed && first == b'#' && last == b'#' && canonical_decimal(inner);
        let is_bytes = bracketed && first == b'[' && last == b']' && !inner.is_empty() && inner.len() % 2 == 0 && all_hex(inner);
        match r {
            Ok(NonFungibleLocalId::String(v)) => { assert!(is_string); assert!(v.value().as_bytes() == inner); }
            Ok(NonFungibleLocalId::Integer(v)) => { assert!(is_integer); assert!(v.value() as u128 == decimal_value(inner)); }
            Ok(NonFungibleLocalId::Bytes(v)) => {
                assert!(is_bytes);
                assert!(v.value().len() == inner.len() / 2);
                let mut i = 0;
                while i < v.value().len() {
                    assert!(v.value()[i] == (hex_val(inner[2 * i]).unwrap() << 4 | hex_val(inner[2 * i + 1]).unwrap()));
                    i += 1;
                }
            }
            Ok(NonFungibleLocalId::RUID(_)) => assert!(false),
            Err(_) => assert!(!is_string && !is_integer && !is_bytes),
        }
    }
}
harness!(c28_from_str_len6, 8, c28_from_str_len6_body);

/// C28 integer text, BOUNDED to exactly 20 decimal digits with a non-zero first digit (the only length
/// at which u64 overflow can happen): `#d1..d20#` is accepted iff its value fits u64, and then denotes it.
fn c28_integer_text_20_digits_body<S: Src>(s: &mut S) {
    let d: [u8; 20] = s.bytes::<20>();
    let mut i = 0;
    while i < 20 { s.assume(is_digit(d[i])); i += 1; }
    s.assume(d[0] != b'0');
    let mut t = [b'#'; 22];
    let mut j = 0;
    while j < 20 { t[1 + j] = d[j]; j += 1; }
    let text = core::str::from_utf8(&t).unwrap();
    let v = decimal_value(&d);
    match NonFungibleLocalId::from_str(text) {
        Ok(NonFungibleLocalId::Integer(x)) => { assert!(v <= u64::MAX as u128); assert!(x.value() as u128 == v); }
        Ok(_) => assert!(false),
        Err(e) => { assert!(v > u64::MAX as u128); assert!(e == ParseNonFungibleLocalIdError::InvalidInteger); }
    }
}
harness!(c28_integer_text_20_digits, 24, c28_integer_text_20_digits_body);

/// C28 integer text, BOUNDED: `#` + any 1..=4 bytes forming valid UTF-8 + `#`: accepted iff the inner
/// text is canonical decimal ("+1", "01", " 1", "1 ", "" are all InvalidInteger), never panics.
fn c28_integer_text_noncanonical_body<S: Src>(s: &mut S) {
    let d: [u8; 4] = s.bytes::<4>();
    let n = s.u8() as usize;
    s.assume(n <= 4);
    let mut t = [b'#'; 6];
    let mut j = 0;
    while j < n { t[1 + j] = d[j]; j += 1; }
    if let Ok(text) = core::str::from_utf8(&t[..n + 2]) {
        match NonFungibleLocalId::from_str(text) {
            Ok(NonFungibleLocalId::Integer(x)) => { assert!(canonical_decimal(&d[..n])); assert!(x.value() as u128 == decimal_value(&d[..n])); }
            Ok(_) => assert!(false),
            Err(e) => { assert!(!canonical_decimal(&d[..n])); assert!(e == ParseNonFungibleLocalIdError::InvalidInteger); }
        }
    }
}
harness!(c28_integer_text_noncanonical, 8, c28_integer_text_noncanonical_body);

/// C28 text round trip, integer ids (BOUNDED: values < 100000): Display then FromStr gives the id back.
fn c28_text_roundtrip_integer_body<S: Src>(s: &mut S) {
    let v = s.u64();
    s.assume(v < 100_000);
    let id = NonFungibleLocalId::integer(v);
    let text = id.to_string();
    assert!(NonFungibleLocalId::from_str(&text) == Ok(id));
}
harness!(c28_text_roundtrip_integer, 12, c28_text_roundtrip_integer_body);

/// C28 text round trip, string ids (BOUNDED: 1..=3 characters of the allowed alphabet)
fn c28_text_roundtrip_string_body<S: Src>(s: &mut S) {
    let d: [u8; 3] = s.bytes::<3>();
    let n = s.u8() as usize;
    s.assume(1 <= n && n <= 3);
    let mut i = 0;
    while i < n { s.assume(ok_byte(d[i])); i += 1; }
    let id = NonFungibleLocalId::string(core::str::from_utf8(&d[..n]).unwrap()).unwrap();
    let text = id.to_string();
    assert!(NonFungibleLocalId::from_str(&text) == Ok(id));
}
harness!(c28_text_roundtrip_string, 8, c28_text_roundtrip_string_body);

/// C28 text round trip, bytes ids (BOUNDED: 1..=2 arbitrary bytes)
fn c28_text_roundtrip_bytes_body<S: Src>(s: &mut S) {
    let d: [u8; 2] = s.bytes::<2>();
    let n = s.u8() as usize;
    s.assume(1 <= n && n <= 2);
    let id = NonFungibleLocalId::bytes(d[..n].to_vec()).unwrap();
    let text = id.to_string();
    assert!(NonFungibleLocalId::from_str(&text) == Ok(id));
}
harness!(c28_text_roundtrip_bytes, 8, c28_text_roundtrip_bytes_body);

/// C28 text round trip, RUID ids (all 32 bytes symbolic: complete for this variant if it terminates)
fn c28_text_roundtrip_ruid_body<S: Src>(s: &mut S) {
    let d: [u8; 32] = s.bytes::<32>();
    let id = NonFungibleLocalId::ruid(d);
    let text = id.to_string();
    assert!(NonFungibleLocalId::from_str(&text) == Ok(id));
}
harness!(c28_text_roundtrip_ruid, 70, c28_text_roundtrip_ruid_body);

fn any_small_id<S: Src>(s: &mut S) -> NonFungibleLocalId {
    let kind = s.u8();
    let d: [u8; 3] = s.bytes::<3>();
    let n = s.u8() as usize;
    s.assume(1 <= n && n <= 3);
    match kind {
        0 => { let mut i = 0; while i < n { s.assume(ok_byte(d[i])); i += 1; }
               NonFungibleLocalId::string(core::str::from_utf8(&d[..n]).unwrap()).unwrap() }
        1 => NonFungibleLocalId::integer(s.u64()),
        2 => NonFungibleLocalId::bytes(d[..n].to_vec()).unwrap(),
        _ => NonFungibleLocalId::ruid(s.bytes::<32>()),
    }
}

/// C28 binary round trip (BOUNDED: string and bytes ids of 1..=3 elements; integer and RUID ids are
/// unbounded): `to_vec` then `decode_body_common` returns the same id and consumes exactly the encoding.
fn c28_binary_roundtrip_body<S: Src>(s: &mut S) {
    let id = any_small_id(s);
    let enc = id.to_vec();
    let mut dec = ScryptoDecoder::new(&enc, 1);
    let back = NonFungibleLocalId::decode_body_common(&mut dec);
    assert!(back == Ok(id));
    assert!(dec.check_end().is_ok());
}
harness!(c28_binary_roundtrip, 40, c28_binary_roundtrip_body);

/// C28 binary decoder (BOUNDED: every input of <= 5 bytes): `decode_body_common` never panics; an
/// accepted input denotes a VALID id whose own encoding is exactly the consumed prefix (unique encoding).
fn c28_binary_decode_total_body<S: Src>(s: &mut S) {
    let b: [u8; 5] = s.bytes::<5>();
    let len = s.u8() as usize;
    s.assume(len <= 5);
    let mut dec = ScryptoDecoder::new(&b[..len], 1);
    if let Ok(id) = NonFungibleLocalId::decode_body_common(&mut dec) {
        match &id {
            NonFungibleLocalId::String(v) => { assert!(1 <= v.value().len() && v.value().len() <= 64); assert!(all_ok_bytes(v.as_bytes())); }
            NonFungibleLocalId::Bytes(v) => assert!(1 <= v.value().len() && v.value().len() <= 64),
            _ => assert!(false), // integer needs 9 bytes, RUID 33
        }
        let consumed = dec.get_offset();
        let enc = id.to_vec();
        assert!(enc.len() == consumed);
        let mut i = 0;
        while i < consumed { assert!(enc[i] == b[i]); i += 1; }
    }
}
harness!(c28_binary_decode_total, 8, c28_binary_decode_total_body);

/// C28 constructors (BOUNDED: lengths 0..=66 with symbolic content would be too wide for CBMC; here the
/// LENGTH is symbolic in 0..=66 and the content is zero bytes): `NonFungibleLocalId::bytes` is Ok iff 1 <= len <= 64.
fn c28_constructors_bytes_body<S: Src>(s: &mut S) {
    let n = s.u8() as usize;
    s.assume(n <= 66);
    let v = vec![0u8; n];
    match NonFungibleLocalId::bytes(v) {
        Ok(id) => assert!(1 <= n && n <= 64),
        Err(e) => assert!((n == 0 && e == ContentValidationError::Empty) || (n > 64 && e == ContentValidationError::TooLong)),
    }
}
harness!(c28_constructors_bytes, 70, c28_constructors_bytes_body);

#[cfg(all(test, not(kani)))]
mod concrete_tests {
    use super::*;
    /// sanity: every harness body runs on all-zero input under plain cargo test (assumptions may cut it short)
    #[test]
    fn bodies_run_concretely() {
        for h in ["c28_from_str_len6", "c28_integer_text_noncanonical", "c28_binary_decode_total", "c28_constructors_bytes"] {
            let _ = std::panic::catch_unwind(|| run_replay(h, vec![]));
        }
    }
}
