//! Kani harnesses on the real `sbor` crate (path dependency on /repo/sbor).
//! C20: length-prefix codec round trip + canonicity; C21: depth accounting + totality.
#![allow(unused)]
use sbor::*;
include!("../../common/src.rs");

macro_rules! harness {
    ($name:ident, $unwind:expr, $body:ident) => {
        #[cfg(kani)]
        #[kani::proof]
        #[kani::unwind($unwind)]
        fn $name() { $body(&mut KaniSrc) }
    };
}

pub fn run_replay(name: &str, vals: Vec<Vec<u8>>) {
    let mut s = ReplaySrc::new(vals);
    match name {
        "c20_size_roundtrip" => c20_size_roundtrip_body(&mut s),
        "c20_size_canonical" => c20_size_canonical_body(&mut s),
        "c21_read_size_total" => c21_read_size_total_body(&mut s),
        "c21_depth_boundary_agrees" => c21_depth_boundary_agrees_body(&mut s),
        _ => panic!("unknown harness {}", name),
    }
}

/// C20 (complete: `n` ranges over all of usize; the LEB128 loop runs at most 5 times, closed by
/// unwind(6) with unwinding assertions): write_size is Ok exactly for n <= 0x0FFF_FFFF, emits
/// 1..=4 bytes, and read_size returns n consuming exactly those bytes.
fn c20_size_roundtrip_body<S: Src>(s: &mut S) {
    let n: usize = s.usize();
    let mut buf = Vec::with_capacity(8);
    let mut enc = VecEncoder::<NoCustomValueKind>::new(&mut buf, 8);
    let r = enc.write_size(n);
    if n > 0x0FFF_FFFF {
        assert!(r.is_err());
        return;
    }
    assert!(r.is_ok());
    assert!(buf.len() >= 1 && buf.len() <= 4);
    let mut dec = VecDecoder::<NoCustomValueKind>::new(&buf, 8);
    let m = dec.read_size();
    assert!(m == Ok(n));
    assert!(dec.get_offset() == buf.len());
}
harness!(c20_size_roundtrip, 6, c20_size_roundtrip_body);

/// C20 canonicity (complete: all 2^40 five-byte inputs): whenever read_size accepts a prefix of
/// k bytes as n, write_size(n) emits exactly those k bytes -- non-minimal forms are rejected;
/// read_size never panics.
fn c20_size_canonical_body<S: Src>(s: &mut S) {
    let bytes: [u8; 5] = s.bytes::<5>();
    let mut dec = VecDecoder::<NoCustomValueKind>::new(&bytes, 8);
    if let Ok(n) = dec.read_size() {
        let k = dec.get_offset();
        assert!(k >= 1 && k <= 4);
        assert!(n <= 0x0FFF_FFFF);
        let mut buf = Vec::with_capacity(8);
        let mut enc = VecEncoder::<NoCustomValueKind>::new(&mut buf, 8);
        assert!(enc.write_size(n).is_ok());
        assert!(buf.len() == k);
        let mut i = 0;
        while i < k {
            assert!(buf[i] == bytes[i]);
            i += 1;
        }
    }
}
harness!(c20_size_canonical, 6, c20_size_canonical_body);

/// C21 totality on short inputs (complete for inputs of length 0..=5: every length, all bytes):
/// read_size on a truncated buffer returns an error instead of panicking.
fn c21_read_size_total_body<S: Src>(s: &mut S) {
    let bytes: [u8; 5] = s.bytes::<5>();
    let len: usize = s.usize();
    s.assume(len <= 5);
    let mut dec = VecDecoder::<NoCustomValueKind>::new(&bytes[..len], 8);
    let r = dec.read_size();
    if let Ok(_) = r {
        assert!(dec.get_offset() <= len);
    }
}
harness!(c21_read_size_total, 7, c21_read_size_total_body);

/// C21 (complete, loop-free; max_depth ranges over all usize): decoder and encoder refuse one more
/// level of nesting at exactly the same boundary, through public API only:
/// decoder.track_stack_depth_increase and encoder.encode_deeper_body(&u8).
fn c21_depth_boundary_agrees_body<S: Src>(s: &mut S) {
    let max_depth: usize = s.usize();
    let bytes = [0u8; 1];
    let mut buf = Vec::with_capacity(4);
    let mut dec = VecDecoder::<NoCustomValueKind>::new(&bytes, max_depth);
    let mut enc = VecEncoder::<NoCustomValueKind>::new(&mut buf, max_depth);
    let d1 = dec.track_stack_depth_increase();
    let e1 = enc.encode_deeper_body(&0u8);
    assert!(d1.is_ok() == e1.is_ok());
    assert!(d1.is_ok() == (max_depth >= 1));
    if d1.is_ok() {
        assert!(dec.get_stack_depth() == 1);
        assert!(dec.track_stack_depth_decrease().is_ok());
        assert!(dec.get_stack_depth() == 0);
    }
}
harness!(c21_depth_boundary_agrees, 3, c21_depth_boundary_agrees_body);
