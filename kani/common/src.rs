// Shared by all harness crates (include!): one harness body, two sources of input.
//  * KaniSrc   -- kani::any(): the symbolic, full-domain input (the proof)
//  * ReplaySrc -- the concrete values of a Kani counterexample, consumed in the order Kani
//                 recorded them (concrete playback); used to re-run the body on the real code
//                 under plain `cargo test`, with no Kani involved.
pub trait Src {
    fn u8(&mut self) -> u8;
    fn u16(&mut self) -> u16;
    fn u32(&mut self) -> u32;
    fn u64(&mut self) -> u64;
    fn i64(&mut self) -> i64;
    fn usize(&mut self) -> usize;
    fn bool(&mut self) -> bool;
    fn assume(&mut self, b: bool);
    fn bytes<const N: usize>(&mut self) -> [u8; N] {
        let mut a = [0u8; N];
        let mut i = 0;
        while i < N { a[i] = self.u8(); i += 1; }
        a
    }
}

#[cfg(kani)]
pub struct KaniSrc;
#[cfg(kani)]
impl Src for KaniSrc {
    fn u8(&mut self) -> u8 { kani::any() }
    fn u16(&mut self) -> u16 { kani::any() }
    fn u32(&mut self) -> u32 { kani::any() }
    fn u64(&mut self) -> u64 { kani::any() }
    fn i64(&mut self) -> i64 { kani::any() }
    fn usize(&mut self) -> usize { kani::any() }
    fn bool(&mut self) -> bool { kani::any() }
    fn assume(&mut self, b: bool) { kani::assume(b) }
    fn bytes<const N: usize>(&mut self) -> [u8; N] { kani::any() }
}

pub struct AssumptionViolated;

pub struct ReplaySrc { vals: Vec<Vec<u8>>, pos: usize }
impl ReplaySrc {
    pub fn new(vals: Vec<Vec<u8>>) -> Self { ReplaySrc { vals, pos: 0 } }
    fn next(&mut self, n: usize) -> Vec<u8> {
        let v = if self.pos < self.vals.len() { self.vals[self.pos].clone() } else { vec![0u8; n] };
        self.pos += 1;
        let mut v = v; v.resize(n, 0); v
    }
}
impl Src for ReplaySrc {
    fn u8(&mut self) -> u8 { self.next(1)[0] }
    fn u16(&mut self) -> u16 { let v = self.next(2); u16::from_le_bytes([v[0], v[1]]) }
    fn u32(&mut self) -> u32 { let v = self.next(4); u32::from_le_bytes([v[0], v[1], v[2], v[3]]) }
    fn u64(&mut self) -> u64 { let v = self.next(8); u64::from_le_bytes(v.try_into().unwrap()) }
    fn i64(&mut self) -> i64 { let v = self.next(8); i64::from_le_bytes(v.try_into().unwrap()) }
    fn usize(&mut self) -> usize { self.u64() as usize }
    fn bool(&mut self) -> bool { self.next(1)[0] != 0 }
    fn assume(&mut self, b: bool) { if !b { std::panic::panic_any(AssumptionViolated) } }
}

/// replay entry point: VERIF_REPLAY_HARNESS=<name> VERIF_REPLAY_VALS="1,2;3;.." cargo test replay_from_env
/// exit status of the test: FAILS (panics) when the recorded input makes the harness assertion
/// fail on the real code -- that is the confirmation of a counterexample.
#[cfg(all(test, not(kani)))]
mod replay_tests {
    #[test]
    fn replay_from_env() {
        let name = match std::env::var("VERIF_REPLAY_HARNESS") { Ok(n) => n, Err(_) => return };
        let raw = std::env::var("VERIF_REPLAY_VALS").unwrap_or_default();
        let vals: Vec<Vec<u8>> = raw.split(';').filter(|s| !s.is_empty())
            .map(|s| s.split(',').filter(|x| !x.is_empty()).map(|x| x.trim().parse::<u8>().unwrap()).collect()).collect();
        let r = std::panic::catch_unwind(|| { super::run_replay(&name, vals) });
        match r {
            Ok(()) => println!("REPLAY-RESULT: harness assertions hold on this input"),
            Err(e) => {
                if e.downcast_ref::<super::AssumptionViolated>().is_some() {
                    println!("REPLAY-RESULT: input violates a harness assumption");
                } else {
                    println!("REPLAY-RESULT: CONFIRMED failing input on the real code");
                    std::panic::resume_unwind(e);
                }
            }
        }
    }
}
